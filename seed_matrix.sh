#!/bin/bash
# ./seed_matrix.sh [repo]  — applies every seeded change to a scratch repo copy and runs every quick check against it
# (detection matrix for DESIGN.md §12). Intended for `vp run --with-repo -- ./seed_matrix.sh`.
R=${1:-${VP_RUN_REPO:-/repo}}
export VERIF_REPO=$R
ids=$(python3 -c "import json;print(' '.join(c['property_id'] for c in json.load(open('MANIFEST.json'))['checks']))")
for d in seeded/*/; do
  name=$(basename $d)
  git -C $R checkout -q -- . ; git -C $R apply $d/patch.diff || { echo "$name: patch does not apply"; continue; }
  line="$name:"
  for id in $ids; do
    out=$(./check $id 2>&1); rc=$?
    nv=$(echo "$out" | grep -c '^VIOLATION')
    if [ $rc -eq 1 ]; then line="$line $id"; elif [ $rc -ne 0 ]; then line="$line ($id:inconclusive)"; fi
  done
  echo "$line"
  git -C $R checkout -q -- .
done
