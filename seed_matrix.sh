#!/bin/bash
# ./seed_matrix.sh [repo]  — applies every seeded change to a scratch repo copy and runs every quick check against it
# (detection matrix for DESIGN.md §12). Intended for `vp run --with-repo -- ./seed_matrix.sh`.
# MATRIX_MODE=own runs only the check of the property the change was made for (regression of the seeded set).
R=${1:-${VP_RUN_REPO}}
if [ -z "$R" ] || [ "$R" = /repo ]; then echo "refusing to patch /repo itself: pass a scratch clone (or use vp run --with-repo)"; exit 2; fi
export VERIF_REPO=$R
ids=$(python3 -c "import json;print(' '.join(c['property_id'] for c in json.load(open('MANIFEST.json'))['checks']))")
for d in seeded/*/; do
  name=$(basename $d)
  git -C $R checkout -q -- . ; git -C $R apply $PWD/${d}patch.diff || { echo "$name: patch does not apply"; continue; }
  line="$name:"
  run_ids=$ids
  if [ "$MATRIX_MODE" = own ]; then run_ids=$(python3 -c "import json;print(json.load(open('${d}meta.json'))['property'])"); fi
  for id in $run_ids; do
    out=$(./check $id 2>&1); rc=$?
    nv=$(echo "$out" | grep -c '^VIOLATION')
    if [ $rc -eq 1 ]; then line="$line $id($nv)"; elif [ $rc -eq 0 ] && [ "$MATRIX_MODE" = own ]; then line="$line MISSED-by-$id"; elif [ $rc -ne 0 ]; then line="$line ($id:inconclusive)"; fi
  done
  echo "$line"
  git -C $R checkout -q -- .
done
