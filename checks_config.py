# Per-property configuration for ./check (tiers, budgets, evidence rule texts).

CONFIG = {
    "C01": {
        "rule": "cases = JSON requests drawn by rapid over all 7 methods x bias sequences 0..3 x heuristic options "
                "(40% tie-heavy majority, 20% tie-heavy other, rest generic); non-trivial = accepted request whose "
                "result has >= 3 entries and a tie class of size >= 2 (equal evaluations or mutual links); distinct by "
                "hash of the request text",
        "assumptions": ["requests the system rejects are not judged here (C07/C20 decide whether rejecting was right)"],
        "quick": {"checks": 30000, "shards": 8, "min_nontrivial": 2000},
        "thorough": {"checks": 400000, "shards": 14, "min_nontrivial": 20000, "timeout": 3000},
        "mandatory_labels": ["C01:nontrivial:majorityHeuristic", "C01:nontrivial:electreIII", "C01:nontrivial:weightedSum",
                             "C01:nontrivial:aspectEliminationHeuristic", "C01:nontrivial:satisfactionHeuristic"],
    },
    "C02": {
        "rule": "cases = generated requests (all methods, bias sequences 0..4 with probabilities/disabled entries, 25% "
                "constraint-level mutants that must be rejected) each decided 6 times in-process interleaved with 0..3 "
                "other requests, then the recorded corpus re-decided in K fresh processes in different orders; "
                "non-trivial = accepted request that draws a random number (any enabled bias, random ordering/draw) or "
                "iterates a map of >= 3 criteria; distinct by request text",
        "assumptions": ["'every process start' is sampled by K fresh processes (3 quick / 8 thorough)",
                        "'every repetition count' is 6 in-process repetitions (20 on replay)"],
        "quick": {"checks": 5000, "shards": 8, "min_nontrivial": 5000, "post": {"run": "^TestC02Corpus$", "procs": 3}},
        "thorough": {"checks": 60000, "shards": 14, "min_nontrivial": 50000, "timeout": 3000,
                     "post": {"run": "^TestC02Corpus$", "procs": 8}},
        "mandatory_labels": ["C02:rejected", "C02:accepted", "C02:fresh-process-cases"],
    },
    "C03": {
        "rule": "cases = generated requests for weightedSum / owa / choquetIntegral (1..5 criteria, any-sign values and weights, "
                "Choquet near-ties at +-5e-6/+-2e-5, bias prefixes 0..2); oracle = closed formula recomputed from the final "
                "criteria values in the response and the parameters reconstructed from request + bias reports; non-trivial "
                "= >= 2 final criteria, values not all equal, weights not all 1 / not all equal, Choquet capacity "
                "non-additive; distinct by request text",
        "assumptions": ["Choquet after criterion-adding biases is not judged (added capacities are unobservable)",
                        "tolerance 1e-8 + 1e-12*scale; Choquet cases with a value gap within 1e-9 of the 1e-5 tie boundary are skipped as ambiguous"],
        "quick": {"checks": 25000, "shards": 8, "min_nontrivial": 20000},
        "thorough": {"checks": 300000, "shards": 14, "min_nontrivial": 200000, "timeout": 3000},
        "mandatory_labels": ["C03:nontrivial:weightedSum", "C03:nontrivial:owa", "C03:nontrivial:choquetIntegral",
                             "C03:nontrivial-with-bias:weightedSum", "C03:nontrivial-with-bias:choquetIntegral", "C03:choquet-textbook-checked"],
    },
    "C04": {
        "rule": "(a) component: AlternativeResults.Ranking() on 1..10 entries drawn from a multiset generator (all equal, "
                "distinct, plateaus, values coinciding/separating only after the 1e-8 rounding); (b) API: the three utility "
                "methods on tie-heavy and near-tie requests; (c) the same request with knownAlternatives and choseToMake "
                "independently permuted. Oracle from the reported values: order (value desc, id asc), exact link sets, "
                "reachability closure, per-id equality under permutation. Non-trivial = >= 3 entries, >= 2 plateaus, one of "
                "size >= 2; distinct by case text",
        "assumptions": ["permutation invariance is judged on requests without biases"],
        "quick": {"checks": 20000, "shards": 8, "min_nontrivial": 20000},
        "thorough": {"checks": 250000, "shards": 14, "min_nontrivial": 200000, "timeout": 3000},
        "mandatory_labels": ["C04:nontrivial:weightedSum", "C04:nontrivial:owa", "C04:nontrivial:choquetIntegral", "C04:permutation-checked"],
    },
    "C07": {
        "rule": "cases = 7 methods x bias sequences of length 0..4 (with repetition) of the 6 biases x their options, all firing, "
                "considered = known or a proper subset, a probe bias before/after every bias; invariants over the recorded "
                "pipeline history: answered with a ranking; every alternative has a value for every current criterion; the "
                "method evaluates and ranks the criteria of every intermediate state; split unchanged; criteria appear/"
                "disappear exactly as reported; untouched values bit-identical across each step; probed == un-probed "
                "response. Non-trivial = >= 2 applied biases of which one adds or removes a criterion; distinct by request text",
        "assumptions": ["the probe returns `current` unchanged (same pointer); the un-probed sibling run must agree"],
        "quick": {"checks": 12000, "shards": 8, "min_nontrivial": 20000},
        "thorough": {"checks": 150000, "shards": 14, "min_nontrivial": 250000, "timeout": 3000},
        "mandatory_labels": ['C07:pair:criteriaOmission>criteriaOmission', 'C07:pair:criteriaOmission>preferenceReversal', 'C07:pair:criteriaOmission>fatigue', 'C07:pair:criteriaOmission>criteriaConcealment', 'C07:pair:criteriaOmission>criteriaMixing', 'C07:pair:criteriaOmission>anchoring', 'C07:pair:preferenceReversal>criteriaOmission', 'C07:pair:preferenceReversal>preferenceReversal', 'C07:pair:preferenceReversal>fatigue', 'C07:pair:preferenceReversal>criteriaConcealment', 'C07:pair:preferenceReversal>criteriaMixing', 'C07:pair:preferenceReversal>anchoring', 'C07:pair:fatigue>criteriaOmission', 'C07:pair:fatigue>preferenceReversal', 'C07:pair:fatigue>fatigue', 'C07:pair:fatigue>criteriaConcealment', 'C07:pair:fatigue>criteriaMixing', 'C07:pair:fatigue>anchoring', 'C07:pair:criteriaConcealment>criteriaOmission', 'C07:pair:criteriaConcealment>preferenceReversal', 'C07:pair:criteriaConcealment>fatigue', 'C07:pair:criteriaConcealment>criteriaConcealment', 'C07:pair:criteriaConcealment>criteriaMixing', 'C07:pair:criteriaConcealment>anchoring', 'C07:pair:criteriaMixing>criteriaOmission', 'C07:pair:criteriaMixing>preferenceReversal', 'C07:pair:criteriaMixing>fatigue', 'C07:pair:criteriaMixing>criteriaConcealment', 'C07:pair:criteriaMixing>criteriaMixing', 'C07:pair:criteriaMixing>anchoring', 'C07:pair:anchoring>criteriaOmission', 'C07:pair:anchoring>preferenceReversal', 'C07:pair:anchoring>fatigue', 'C07:pair:anchoring>criteriaConcealment', 'C07:pair:anchoring>criteriaMixing', 'C07:pair:anchoring>anchoring', 'C07:nontrivial:weightedSum', 'C07:nontrivial:owa', 'C07:nontrivial:choquetIntegral', 'C07:nontrivial:electreIII', 'C07:nontrivial:majorityHeuristic', 'C07:nontrivial:aspectEliminationHeuristic', 'C07:nontrivial:satisfactionHeuristic'],
    },
    "C05": {
        "rule": "API: ELECTRE III requests with 1..6 alternatives x 1..4 criteria, gain/cost, constant thresholds 0<=q<p<v each "
                "possibly absent, default/custom distillation function (50% integer/dyadic instances with frequent ties); "
                "component: RankAscending/RankDescending on credibility matrices over grids {k/10},{k/4} and continuous. "
                "Oracle = independent textbook re-implementation (concordance, discordance, credibility, distillation over "
                "index sets) + links-from-indices rule. Non-trivial = >= 3 alternatives and an inner distillation or >= 3 "
                "classes; distinct by case text",
        "assumptions": ["ascendingIndex = max-qualification-first distillation (naming fixed by the matrices pinned in distilation_test.go)",
                        "instances where a reference comparison has a non-zero margin below 1e-9 are skipped as ambiguous (counted)"],
        "quick": {"checks": 15000, "shards": 8, "min_nontrivial": 20000},
        "thorough": {"checks": 200000, "shards": 14, "min_nontrivial": 250000, "timeout": 3000},
        "mandatory_labels": ["C05:inner-distillation", "C05:tie-on-criterion-without-q-p"],
    },
    "C06": {
        "rule": "cases = ELECTRE III requests (C05 domain) with a planted weakly dominated pair (a copy worsened on some criteria by "
                "0..k steps) and, with probability 1/2, an identical twin, among 0..4 further alternatives; each case = 3 "
                "decisions (base, permuted listing, every k x 2^m with m in -3..8). Relations: dominance => indices and link; "
                "twins => equal indices; permutation / weight scaling => same indices. Non-trivial = a strictly dominated pair "
                "with a tie on some criterion among >= 3 considered alternatives; distinct by request text",
        "assumptions": ["instances where a reference comparison has a non-zero margin below 1e-9 are not judged for dominance (counted as ambiguous)"],
        "quick": {"checks": 12000, "shards": 8, "min_nontrivial": 15000},
        "thorough": {"checks": 150000, "shards": 14, "min_nontrivial": 200000, "timeout": 3000},
        "mandatory_labels": ["C06:twins", "C06:dominated-pairs"],
    },
}
