# Per-property configuration for ./check (tiers, budgets, evidence rule texts).

CONFIG = {
    "C01": {
        "rule": "cases = JSON requests drawn by rapid over all 7 methods x bias sequences 0..3 x heuristic options "
                "(40% tie-heavy majority, 20% tie-heavy other, rest generic); non-trivial = accepted request whose "
                "result has >= 3 entries and a tie class of size >= 2 (equal evaluations or mutual links); distinct by "
                "hash of the request text",
        "assumptions": ["requests the system rejects are not judged here (C07/C20 decide whether rejecting was right)"],
        "quick": {"checks": 30000, "shards": 8, "min_nontrivial": 2000},
        "thorough": {"checks": 400000, "shards": 14, "min_nontrivial": 20000, "timeout": 3000},
        "mandatory_labels": ["C01:nontrivial:majorityHeuristic", "C01:nontrivial:electreIII", "C01:nontrivial:weightedSum",
                             "C01:nontrivial:aspectEliminationHeuristic", "C01:nontrivial:satisfactionHeuristic"],
    },
}
