# Per-property configuration for ./check (tiers, budgets, evidence rule texts).

CONFIG = {
    "C01": {
        "rule": "cases = JSON requests drawn by rapid over all 7 methods x bias sequences 0..3 x heuristic options "
                "(40% tie-heavy majority, 20% tie-heavy other, rest generic); non-trivial = accepted request whose "
                "result has >= 3 entries and a tie class of size >= 2 (equal evaluations or mutual links); distinct by "
                "hash of the request text",
        "assumptions": ["requests the system rejects are not judged here (C07/C20 decide whether rejecting was right)"],
        "quick": {"checks": 30000, "shards": 8, "min_nontrivial": 2000},
        "thorough": {"checks": 400000, "shards": 14, "min_nontrivial": 20000, "timeout": 3000,
                     "fuzz": {"targets": ["FuzzC01"], "seconds": 120, "workers": 12}},
        "mandatory_labels": ["C01:nontrivial:majorityHeuristic", "C01:nontrivial:electreIII", "C01:nontrivial:weightedSum",
                             "C01:nontrivial:aspectEliminationHeuristic", "C01:nontrivial:satisfactionHeuristic"],
    },
    "C02": {
        "rule": "cases = generated requests (all methods, bias sequences 0..4 with probabilities/disabled entries, 25% "
                "constraint-level mutants that must be rejected) each decided 6 times in-process interleaved with 0..3 "
                "other requests, then the recorded corpus re-decided in K fresh processes in different orders; "
                "non-trivial = accepted request that draws a random number (any enabled bias, random ordering/draw) or "
                "iterates a map of >= 3 criteria; distinct by request text",
        "assumptions": ["'every process start' is sampled by K fresh processes (3 quick / 8 thorough)",
                        "'every repetition count' is 6 in-process repetitions (20 on replay)"],
        "quick": {"checks": 5000, "shards": 8, "min_nontrivial": 5000, "post": {"run": "^TestC02Corpus$", "procs": 3}},
        "thorough": {"checks": 60000, "shards": 14, "min_nontrivial": 50000, "timeout": 3000, "server": True,
                     "post": {"run": "^TestC02Corpus$", "procs": 8}},
        "mandatory_labels": ["C02:rejected", "C02:accepted", "C02:fresh-process-cases"],
    },
    "C03": {
        "rule": "cases = generated requests for weightedSum / owa / choquetIntegral (1..5 criteria, any-sign values and weights, "
                "Choquet near-ties at +-5e-6/+-2e-5, bias prefixes 0..2); oracle = closed formula recomputed from the final "
                "criteria values in the response and the parameters reconstructed from request + bias reports; non-trivial "
                "= >= 2 final criteria, values not all equal, weights not all 1 / not all equal, Choquet capacity "
                "non-additive; distinct by request text",
        "assumptions": ["Choquet after criterion-adding biases is not judged (added capacities are unobservable)",
                        "tolerance 1e-8 + 1e-12*scale; Choquet cases with a value gap within 1e-9 of the 1e-5 tie boundary are skipped as ambiguous"],
        "quick": {"checks": 25000, "shards": 8, "min_nontrivial": 20000},
        "thorough": {"checks": 300000, "shards": 14, "min_nontrivial": 200000, "timeout": 3000},
        "mandatory_labels": ["C03:nontrivial:weightedSum", "C03:nontrivial:owa", "C03:nontrivial:choquetIntegral",
                             "C03:nontrivial-with-bias:weightedSum", "C03:nontrivial-with-bias:choquetIntegral", "C03:choquet-textbook-checked"],
    },
    "C04": {
        "rule": "(a) component: AlternativeResults.Ranking() on 1..10 entries drawn from a multiset generator (all equal, "
                "distinct, plateaus, values coinciding/separating only after the 1e-8 rounding); (b) API: the three utility "
                "methods on tie-heavy and near-tie requests; (c) the same request with knownAlternatives and choseToMake "
                "independently permuted. Oracle from the reported values: order (value desc, id asc), exact link sets, "
                "reachability closure, per-id equality under permutation. Non-trivial = >= 3 entries, >= 2 plateaus, one of "
                "size >= 2; distinct by case text",
        "assumptions": ["permutation invariance is judged on requests without biases"],
        "quick": {"checks": 20000, "shards": 8, "min_nontrivial": 20000},
        "thorough": {"checks": 250000, "shards": 14, "min_nontrivial": 200000, "timeout": 3000},
        "mandatory_labels": ["C04:nontrivial:weightedSum", "C04:nontrivial:owa", "C04:nontrivial:choquetIntegral", "C04:permutation-checked"],
    },
    "C07": {
        "rule": "cases = 7 methods x bias sequences of length 0..4 (with repetition) of the 6 biases x their options, all firing, "
                "considered = known or a proper subset, a probe bias before/after every bias; invariants over the recorded "
                "pipeline history: answered with a ranking; every alternative has a value for every current criterion; the "
                "method evaluates and ranks the criteria of every intermediate state; split unchanged; criteria appear/"
                "disappear exactly as reported; untouched values bit-identical across each step; probed == un-probed "
                "response. Non-trivial = >= 2 applied biases of which one adds or removes a criterion; distinct by request text",
        "assumptions": ["the probe returns `current` unchanged (same pointer); the un-probed sibling run must agree"],
        "quick": {"checks": 12000, "shards": 8, "min_nontrivial": 20000},
        "thorough": {"checks": 150000, "shards": 14, "min_nontrivial": 250000, "timeout": 3000},
        "mandatory_labels": ['C07:pair:criteriaOmission>criteriaOmission', 'C07:pair:criteriaOmission>preferenceReversal', 'C07:pair:criteriaOmission>fatigue', 'C07:pair:criteriaOmission>criteriaConcealment', 'C07:pair:criteriaOmission>criteriaMixing', 'C07:pair:criteriaOmission>anchoring', 'C07:pair:preferenceReversal>criteriaOmission', 'C07:pair:preferenceReversal>preferenceReversal', 'C07:pair:preferenceReversal>fatigue', 'C07:pair:preferenceReversal>criteriaConcealment', 'C07:pair:preferenceReversal>criteriaMixing', 'C07:pair:preferenceReversal>anchoring', 'C07:pair:fatigue>criteriaOmission', 'C07:pair:fatigue>preferenceReversal', 'C07:pair:fatigue>fatigue', 'C07:pair:fatigue>criteriaConcealment', 'C07:pair:fatigue>criteriaMixing', 'C07:pair:fatigue>anchoring', 'C07:pair:criteriaConcealment>criteriaOmission', 'C07:pair:criteriaConcealment>preferenceReversal', 'C07:pair:criteriaConcealment>fatigue', 'C07:pair:criteriaConcealment>criteriaConcealment', 'C07:pair:criteriaConcealment>criteriaMixing', 'C07:pair:criteriaConcealment>anchoring', 'C07:pair:criteriaMixing>criteriaOmission', 'C07:pair:criteriaMixing>preferenceReversal', 'C07:pair:criteriaMixing>fatigue', 'C07:pair:criteriaMixing>criteriaConcealment', 'C07:pair:criteriaMixing>criteriaMixing', 'C07:pair:criteriaMixing>anchoring', 'C07:pair:anchoring>criteriaOmission', 'C07:pair:anchoring>preferenceReversal', 'C07:pair:anchoring>fatigue', 'C07:pair:anchoring>criteriaConcealment', 'C07:pair:anchoring>criteriaMixing', 'C07:pair:anchoring>anchoring', 'C07:nontrivial:weightedSum', 'C07:nontrivial:owa', 'C07:nontrivial:choquetIntegral', 'C07:nontrivial:electreIII', 'C07:nontrivial:majorityHeuristic', 'C07:nontrivial:aspectEliminationHeuristic', 'C07:nontrivial:satisfactionHeuristic'],
    },
    "C05": {
        "rule": "API: ELECTRE III requests with 1..6 alternatives x 1..4 criteria, gain/cost, constant thresholds 0<=q<p<v each "
                "possibly absent, default/custom distillation function (50% integer/dyadic instances with frequent ties); "
                "component: RankAscending/RankDescending on credibility matrices over grids {k/10},{k/4} and continuous. "
                "Oracle = independent textbook re-implementation (concordance, discordance, credibility, distillation over "
                "index sets) + links-from-indices rule. Non-trivial = >= 3 alternatives and an inner distillation or >= 3 "
                "classes; distinct by case text",
        "assumptions": ["ascendingIndex = max-qualification-first distillation (naming fixed by the matrices pinned in distilation_test.go)",
                        "instances where a reference comparison has a non-zero margin below 1e-9 are skipped as ambiguous (counted)"],
        "quick": {"checks": 30000, "shards": 8, "min_nontrivial": 40000},
        "thorough": {"checks": 300000, "shards": 14, "min_nontrivial": 400000, "timeout": 3000},
        "mandatory_labels": ["C05:inner-distillation", "C05:tie-on-criterion-without-q-p"],
    },
    "C06": {
        "rule": "cases = ELECTRE III requests (C05 domain) with a planted weakly dominated pair (a copy worsened on some criteria by "
                "0..k steps) and, with probability 1/2, an identical twin, among 0..4 further alternatives; each case = 3 "
                "decisions (base, permuted listing, every k x 2^m with m in -3..8). Relations: dominance => indices and link; "
                "twins => equal indices; permutation / weight scaling => same indices. Non-trivial = a strictly dominated pair "
                "with a tie on some criterion among >= 3 considered alternatives; distinct by request text",
        "assumptions": ["instances where a reference comparison has a non-zero margin below 1e-9 are not judged for dominance (counted as ambiguous)"],
        "quick": {"checks": 40000, "shards": 8, "min_nontrivial": 50000},
        "thorough": {"checks": 400000, "shards": 14, "min_nontrivial": 500000, "timeout": 3000},
        "mandatory_labels": ["C06:twins", "C06:dominated-pairs"],
    },
    "C08": {
        "rule": "relation cases = a generated valid request plus a bias list of length 0..6 mixing always-reporting biases (fatigue "
                "const, reversal, omission ratio 0, probe), disabled entries incl. unknown names and garbage props, probabilities "
                "from {absent,0,1,near 0/1,uniform}; oracles: shape/echo, disabled==absent (byte-identical), non-firing => "
                "props:null and replaceable/removable without effect, p=1 fires / p=0 never, firing independent of the other "
                "entries, monotone in p, and independent of earlier requests (the full list after a same-seed prefix of it and after "
                "another seed answers alike); frequency cases = N seeds per (position,p) within 6.5 sigma + 2. Non-trivial = >= 2 "
                "enabled entries with a probability strictly between 0 and 1 (relation) / every frequency batch; distinct by case text",
        "assumptions": ["frequency acceptance band 6.5 sigma + 2 (false-alarm probability < 1e-9 per batch); N = 2000 quick, 20000 thorough"],
        "quick": {"checks": 8000, "shards": 8, "min_nontrivial": 10000},
        "thorough": {"checks": 100000, "shards": 14, "min_nontrivial": 150000, "timeout": 3000},
        "mandatory_labels": ["C08:with-disabled-entries", "C08:non-firing-target", "C08:frequency-decisions"],
    },
    "C11": {
        "rule": "cases = majority requests with 1..6 considered alternatives (7 with fixed order), gain/cost, tie-heavy and near-tie "
                "(+-5e-7, +-2e-6) values, equal/distinct/negative weights, four draw policies, fixed or seeded-random order, "
                "currentChoice absent/considered/known only, optional value-only bias prefix; oracle = reference tournament "
                "(exact for fixed order + deterministic policy; existential over search orders with the current choice first "
                "and over coin sequences otherwise): drop-out groups as sets, comparedWith/value/comparedAlternativeValue, "
                "links by reachability. Non-trivial = >= 4 ranked alternatives and a tournament with a score draw and >= 2 "
                "drop-out groups; distinct by request text",
        "assumptions": ["the undefeated alternative's own evaluation fields are not constrained by the statement",
                        "cases where a reference comparison is within 1e-9 of the 1e-6 tie boundary are skipped as ambiguous"],
        "quick": {"checks": 20000, "shards": 8, "min_nontrivial": 15000},
        "thorough": {"checks": 250000, "shards": 14, "min_nontrivial": 200000, "timeout": 3000},
        "mandatory_labels": ["C11:policy=allow", "C11:policy=current", "C11:policy=newer", "C11:policy=random", "C11:random-order-nonidentity",
                             "C11:coin-newer-observed", "C11:coin-current-observed", "C11:with-bias-prefix", "C11:fixed", "C11:random-order"],
    },
    "C12": {
        "rule": "cases = aspect-elimination requests (1..7 considered alternatives, 1..4 criteria gain/cost, 80% pairwise distinct "
                "weights, explicit increasing threshold lists and both increasing series, fixed or seeded-random order, 50% dyadic "
                "values landing exactly on thresholds, optional value-only bias prefix); oracle = reference elimination walk over "
                "the reference level series: exact for fixed order and distinct weights, existential over alternative orders / "
                "tie-breaks of equal weights otherwise; survivors first as a set, eliminated in reverse order with (level, "
                "criterion, threshold), chain links by reachability. Non-trivial = >= 3 ranked alternatives and >= 2 levels "
                "reached or two alternatives failing the same check; distinct by request text",
        "assumptions": ["no order is claimed among survivors; a comparison within 1e-9 of a threshold (non-zero) makes the case ambiguous (skipped, counted)"],
        "quick": {"checks": 20000, "shards": 8, "min_nontrivial": 15000},
        "thorough": {"checks": 250000, "shards": 14, "min_nontrivial": 200000, "timeout": 3000},
        "mandatory_labels": ["C12:generated-series", "C12:tied-weights", "C12:random-order", "C12:multi-survivor", "C12:matched"],
    },
    "C13": {
        "rule": "cases = satisfaction requests (as C12 plus currentChoice absent/considered/known only, explicit decreasing lists "
                "and both decreasing series); oracle = reference acceptance walk in search order (current first) over the reference "
                "level series: exact for fixed order, existential over orders otherwise plus a run-level aggregate (among >= 40 "
                "random-order decisions whose outcome depends on the order, with and without a bias that changed the criteria set, "
                "at least one differs from the listing-order walk); accepted entries in acceptance order with "
                "level index and full threshold map which they really satisfy, leftovers with the index after the last level and "
                "the worst end of every range (declared, else over all known alternatives). Non-trivial = >= 3 ranked alternatives "
                "with acceptances at >= 2 levels or a leftover; distinct by request text",
        "assumptions": ["no order is claimed among the alternatives that met no level"],
        "quick": {"checks": 20000, "shards": 8, "min_nontrivial": 15000},
        "thorough": {"checks": 250000, "shards": 14, "min_nontrivial": 200000, "timeout": 3000},
        "mandatory_labels": ["C13:generated-series", "C13:random-order", "C13:leftover", "C13:current-choice-considered-with-leftover", "C13:matched"],
    },
    "C14": {
        "rule": "component: the four generated level sources as wired in main.go iterated to exhaustion (coefficient in "
                "[0.001,0.999], minValue/maxValue over the documented ranges incl. min>=max, 50% dyadic parameters whose levels "
                "land exactly on the bounds, declared/observed/degenerate/negative ranges, gain and cost, 10% out-of-range "
                "parameters that must be rejected) compared with the documented series (length exact, thresholds 1e-9 relative, "
                "strictly monotone, finite); API: aspect elimination must use the increasing and satisfaction the decreasing "
                "series (C12/C13 oracles on series-only requests) and reject out-of-range parameters. Non-trivial = series with "
                ">= 3 levels; distinct by case text",
        "assumptions": ["a stop comparison closer than 1e-9 (non-zero) makes a non-dyadic case ambiguous (skipped, counted)",
                        "the decreasing multiplied series is generated with minValue >= 0.01 so that its length stays below 5000"],
        "quick": {"checks": 12000, "shards": 8, "min_nontrivial": 50000},
        "thorough": {"checks": 150000, "shards": 14, "min_nontrivial": 600000, "timeout": 3000},
        "mandatory_labels": ["C14:out-of-range-params", "C14:lands-on-bound", "C14:clamped", "C14:degenerate-range", "C14:empty-series",
                             "C14:api:aspectEliminationHeuristic", "C14:api:satisfactionHeuristic", "C14:api-out-of-range"],
    },
    "C15": {
        "rule": "cases = all methods with exactly one firing criteria omission (five orderings, seeds, ratio incl. n*ratio integral, "
                "min/max keeping >= 1 criterion, 25% superfluous method-parameter entries, importance ties) between two probes; "
                "oracles: count rule, omitted are distinct declared criteria, every structure restricted to the kept criteria with "
                "unchanged values, decision == decision of the reduced request (kept order from the probe; aspect elimination only "
                "with distinct weights), weakest/strongest against the documented importance recomputed independently; "
                "statistical batches over 2000 seeds for the probabilistic/random orderings. Non-trivial = n >= 3, 1 <= k < n, "
                "importances not all equal (relation) / every batch; distinct by case text",
        "assumptions": ["statistical acceptance: difference of first-position counts > 6*sqrt(N), expected about 30*sqrt(N) for importances 1:4:16"],
        "quick": {"checks": 12000, "shards": 8, "min_nontrivial": 20000},
        "thorough": {"checks": 150000, "shards": 14, "min_nontrivial": 250000, "timeout": 3000},
        "mandatory_labels": ['C15:nontrivial:weightedSum', 'C15:nontrivial:owa', 'C15:nontrivial:choquetIntegral', 'C15:nontrivial:electreIII', 'C15:nontrivial:majorityHeuristic', 'C15:nontrivial:aspectEliminationHeuristic', 'C15:nontrivial:satisfactionHeuristic', 'C15:reduced-equivalence-checked:weightedSum', 'C15:reduced-equivalence-checked:owa', 'C15:reduced-equivalence-checked:choquetIntegral', 'C15:reduced-equivalence-checked:electreIII', 'C15:reduced-equivalence-checked:majorityHeuristic', 'C15:reduced-equivalence-checked:aspectEliminationHeuristic', 'C15:reduced-equivalence-checked:satisfactionHeuristic', 'C15:ordering=weakest', 'C15:ordering=strongest', 'C15:ordering=random', 'C15:ordering=weakestByProbability', 'C15:ordering=strongestByProbability', 'C15:superfluous-param', 'C15:stat-decisions'],
    },
    "C16": {
        "rule": "cases = all methods, 0..2 arbitrary preceding biases, then a preference reversal (orderings, ratios, min/max, declared "
                "or observed ranges, considered = known or subset) between probes; oracle: count rule, new = max+min-old over the "
                "range of the state received for every known alternative, report = criteria/ranges/values handed on, every other "
                "value, the criteria list and the parameter fingerprint unchanged, observed range preserved; plus double reversal "
                "with a value-independent selection restores the data. Non-trivial = >= 1 selected and >= 1 unselected criterion "
                "with differing values on a selected one; distinct by request text",
        "assumptions": ["double reversal is judged only when both applications report the same selected criteria"],
        "quick": {"checks": 12000, "shards": 8, "min_nontrivial": 15000},
        "thorough": {"checks": 150000, "shards": 14, "min_nontrivial": 200000, "timeout": 3000},
        "mandatory_labels": ['C16:nontrivial:weightedSum', 'C16:nontrivial:owa', 'C16:nontrivial:choquetIntegral', 'C16:nontrivial:electreIII', 'C16:nontrivial:majorityHeuristic', 'C16:nontrivial:aspectEliminationHeuristic', 'C16:nontrivial:satisfactionHeuristic', 'C16:after-other-biases'],
    },
    "C17": {
        "rule": "cases = all methods, 0..2 arbitrary preceding biases, then fatigue (const incl. 0 and negative, expFromZero incl. "
                "queryNumber 0, any seed, bounding off / scaled / non-negative, values of any sign) between probes; oracle: ratio "
                "formula, |v'-v| <= |f v| (interval pushed through the bounding function when configured), f=0 identity, criteria "
                "and parameter fingerprint unchanged, report == values handed on == method input; run-level: both directions and "
                "varying u observed. Non-trivial = f != 0 and >= 4 non-zero values; distinct by request text",
        "assumptions": ["interval slack 1e-12 relative"],
        "quick": {"checks": 12000, "shards": 8, "min_nontrivial": 20000},
        "thorough": {"checks": 150000, "shards": 14, "min_nontrivial": 250000, "timeout": 3000},
        "mandatory_labels": ['C17:nontrivial:weightedSum', 'C17:nontrivial:owa', 'C17:nontrivial:choquetIntegral', 'C17:nontrivial:electreIII', 'C17:nontrivial:majorityHeuristic', 'C17:nontrivial:aspectEliminationHeuristic', 'C17:nontrivial:satisfactionHeuristic', 'C17:moved-up', 'C17:moved-down', 'C17:u-low', 'C17:u-high', 'C17:bounded'],
    },
    "C18": {
        "rule": "cases = all methods, 0..2 arbitrary preceding biases or the same bias 2-3 times, then criteria concealment / mixing "
                "(three reference strategies, scaling != 0 incl. negative, mixing ratio in [0,1] incl. 0 and 1, bounding options, "
                "1..5 criteria) between probes; oracle: exactly one new gain criterion with an unused id appended, every known "
                "alternative valued, existing values/criteria untouched, the method evaluates the new state, new weight = "
                "fraction in [0,1) of an existing criterion's weight which also explains the reported range, concealed values in "
                "the scaled range pushed through the bounding, mixing components = two distinct criteria rescaled to [0,T] with "
                "cost inverted and mixed = ratio*c1+(1-ratio)*c2; component batches for the reference-criterion providers. "
                "Non-trivial = >= 2 criteria and >= 2 alternatives before the step; distinct by case text",
        "assumptions": ["'existing criteria' for the reference criterion = criteria of the original or of the current state (concealment ranks the original state by design)"],
        "quick": {"checks": 12000, "shards": 8, "min_nontrivial": 25000},
        "thorough": {"checks": 150000, "shards": 14, "min_nontrivial": 300000, "timeout": 3000},
        "mandatory_labels": ['C18:nontrivial:criteriaConcealment:weightedSum', 'C18:nontrivial:criteriaConcealment:owa', 'C18:nontrivial:criteriaConcealment:choquetIntegral', 'C18:nontrivial:criteriaConcealment:electreIII', 'C18:nontrivial:criteriaConcealment:majorityHeuristic', 'C18:nontrivial:criteriaConcealment:aspectEliminationHeuristic', 'C18:nontrivial:criteriaConcealment:satisfactionHeuristic', 'C18:nontrivial:criteriaMixing:weightedSum', 'C18:nontrivial:criteriaMixing:owa', 'C18:nontrivial:criteriaMixing:choquetIntegral', 'C18:nontrivial:criteriaMixing:electreIII', 'C18:nontrivial:criteriaMixing:majorityHeuristic', 'C18:nontrivial:criteriaMixing:aspectEliminationHeuristic', 'C18:nontrivial:criteriaMixing:satisfactionHeuristic', 'C18:repeated-application', 'C18:mixing-single-criterion', 'C18:mixing-cost-component', 'C18:provider-calls'],
    },
    "C19": {
        "rule": "cases = all methods, 0..1 arbitrary preceding bias, then anchoring (1..3 anchoring alternatives considered or not, "
                "positive equal/mixed coefficients, ideal/nadir, linear and exponential gain/loss incl. identically zero and b != 0, "
                "both appliers with all options, gain and cost, degenerate ranges) between probes; oracle: reference point = "
                "coefficient-weighted extreme, scaling = 1/range, mapped difference = gain(d) if d > 0 else -loss(-d), inline: "
                "new = B(old + range x mapped difference) for considered (others only if asked) with appliedDifferences == new - old "
                "and zero functions => identity, newCriterion: one appended criterion = B(mid + half x importance-weighted mean), "
                "reported range = observed range, existing values untouched. Non-trivial = (>= 2 anchoring alternatives with "
                "different coefficients or a cost criterion) and both a positive and a non-positive difference; distinct by request text",
        "assumptions": ["importances for the newCriterion applier are the listener's own RankCriteriaAscending of the received state (recorded by the probe)",
                        "requests where the documented exponential formula overflows float64 (alpha x |d| > 600) are skipped (counted)"],
        "quick": {"checks": 12000, "shards": 8, "min_nontrivial": 20000},
        "thorough": {"checks": 150000, "shards": 14, "min_nontrivial": 250000, "timeout": 3000},
        "mandatory_labels": ['C19:nontrivial:weightedSum', 'C19:nontrivial:owa', 'C19:nontrivial:choquetIntegral', 'C19:nontrivial:electreIII', 'C19:nontrivial:majorityHeuristic', 'C19:nontrivial:aspectEliminationHeuristic', 'C19:nontrivial:satisfactionHeuristic', 'C19:inline', 'C19:newCriterion', 'C19:zero-functions', 'C19:degenerate-range'],
    },
    "C09": {
        "rule": "history cases = sequences of 1..8 operations (decide a new generated request / decide an earlier request again; "
                "aliasing-sensitive shapes: all alternatives considered, current choice taken from the considered set, value-"
                "rewriting biases before a heuristic, 12% rejected requests) executed in one process with a deep snapshot (incl. the "
                "spare capacity of JSON-decoded slices) of every request value and the bytes of every returned result, re-checked "
                "after every step; report cases = fully probed requests where every bias report (fatigue lists, reversed values, "
                "added criteria) and every state handed on is compared with the probe snapshot after the final method ran; histories "
                "put a rejected relative of a request between it and its repetition, and a fresh-process phase (3 quick / 8 thorough "
                "processes) decides the recorded first-time outcomes of the history cases again in another order. "
                "Non-trivial = sequence with a repeated request or an aliasing-sensitive accepted request with >= 1 bias / report "
                "case with all alternatives considered or the current choice from the considered set; distinct by case text",
        "assumptions": ["the probe hands `current` on unchanged (same pointer), so it observes exactly what the next stage receives"],
        "quick": {"checks": 12000, "shards": 8, "min_nontrivial": 20000, "post": {"run": "^TestC09Corpus$", "procs": 3}},
        "thorough": {"checks": 150000, "shards": 14, "min_nontrivial": 250000, "timeout": 3000, "post": {"run": "^TestC09Corpus$", "procs": 8}},
        "mandatory_labels": ["C09:spare-capacity", "C09:repeated-request", "C09:aliasing-sensitive", "C09:current-choice-from-considered", "C09:all-considered"],
    },
    "C10": {
        "rule": "cases = batches of 2..12 generated requests (all methods and biases, 50% heuristics with generated level series, "
                "25% duplicates of another request of the batch, 17% constraint mutants that must be rejected), every request run by "
                "1..4 goroutines released together, 3 rounds per batch, against the in-process handler of a -race build (GOMAXPROCS "
                "2/4/16 across shards); thorough additionally against a -race build of the real server process. Oracle: every "
                "concurrent response equals the response of the same request decided alone (status; body when 200), the race "
                "detector reports nothing, the process survives. Non-trivial = batch with >= 2 accepted requests sharing a method or "
                "a bias; distinct by batch text",
        "assumptions": ["schedules are sampled, not enumerated; the race detector flags unsynchronised conflicting accesses on the executed paths independent of timing",
                        "for rejected requests only the status is compared (error texts may list registry names in map order)"],
        "quick": {"checks": 250, "shards": 8, "min_nontrivial": 1200, "race": True, "gomaxprocs": [2, 4, 16, 8], "death_is_violation": True,
                  "post": {"run": "^TestC10Cold$", "procs": 64, "parallel": 16}},
        "thorough": {"checks": 4000, "shards": 14, "min_nontrivial": 20000, "race": True, "server": True, "gomaxprocs": [2, 4, 16, 8],
                     "death_is_violation": True, "timeout": 3000, "post": {"run": "^TestC10Cold$", "procs": 480, "parallel": 16}},
        "mandatory_labels": ["C10:rejected-request-in-batch", "C10:cold-start-batches"],
        "replay_fresh_runs": 30,
    },
    "C20": {
        "rule": "cases = request bodies of four kinds: valid generated requests (20%), constraint-level mutants = exactly one documented "
                "constraint broken on a valid request (30%, 29 operators), type-level mutants = one subtree of a valid request replaced "
                "by another JSON type / dropped / duplicated (30%), byte-level = hostile constants, truncation, byte flips, junk "
                "insertion, deep nesting (20%); sent to the in-process handler (every case, 30 s watchdog, lowered max stack) and to "
                "the real server process (10% of the case count; liveness after every request, known-good request re-checked every "
                "50). Oracle: 200 with result+biases arrays (valid: also a well-formed ranking) or 400 with non-empty error and the "
                "echoed request equal (as a JSON value) to the request that was sent, nothing else; constraint mutants (the offending "
                "bias first or last in the list) never answered with a ranking; unknown method/bias errors list every registered "
                "name; process survives, also a hostile class of small bodies with 20-70 Choquet criteria under an 8 GiB address-"
                "space limit; GET /api/preferenceFunctions has a schema object per method whose local $refs all resolve. Non-trivial = body "
                "that passes JSON binding (reaches MakeDecision); distinct by (kind, mutation, body)",
        "assumptions": ["bodies <= 64 KiB; generated requests have <= 6 criteria and <= 7 alternatives, one hostile class declares 20-70 Choquet criteria without their 2^n weights; the test processes and the server child run under an 8 GiB address-space limit so that unbounded allocation kills them (a violation) rather than the machine; other resource exhaustion by size (e.g. a valid 20-criteria Choquet request with its million weights) is outside what is explored",
                        "a valid request answered 400 only because its result is not finite (json: unsupported value) is counted, not judged (C07 decides combinations)"],
        "quick": {"checks": 6000, "shards": 8, "min_nontrivial": 20000, "server": True, "death_is_violation": True, "maxstack": 67108864, "rlimit_as_mb": 8192},
        "thorough": {"checks": 120000, "shards": 14, "min_nontrivial": 400000, "server": True, "death_is_violation": True, "maxstack": 67108864, "rlimit_as_mb": 8192, "timeout": 3000,
                     "fuzz": {"targets": ["FuzzC20Bytes"], "seconds": 180, "workers": 12}},
        "mandatory_labels": ["C20:C20:valid:200", "C20:C20:constraint:400", "C20:C20:type:200", "C20:C20:type:400", "C20:C20:bytes:400",
                             "C20:C20server:constraint:400", "C20:C20server:valid:200", "C20:known-good-rechecked"],
    },
}
