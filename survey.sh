#!/bin/sh
# development aid: classify failures of one property's checks instead of stopping at the first
id=$1; shift
VERIF_SURVEY=1 ./check $id "$@" >/dev/null 2>&1
python3 - $id <<'PY'
import json,sys,re,collections
d=json.load(open('/verif/evidence/%s.json'%sys.argv[1]))['coverage']
agg=collections.Counter()
for k,v in d['labels'].items():
    if k.startswith('survey'):
        k=re.sub(r'[0-9]+(\.[0-9]+)?(e-?[0-9]+)?','#',k)
        agg[k[:150]]+=v
for k,v in agg.most_common(60): print(v,k)
print('evaluations',d['evaluations'],'nontrivial',d['distinct_nontrivial'])
PY
