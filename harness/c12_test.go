package main_test

// C12 — aspect elimination ranks in reverse order of elimination.
// C13 — satisfaction heuristic ranks by the first level an alternative satisfies.

import (
	"fmt"
	"sort"
	"strings"
	"testing"

	"pgregory.net/rapid"
)

type elimRec struct {
	id string
	k  int
	c  string
	t  float64
}

// refAspect simulates aspect elimination for one alternative order and one criteria order.
func refAspect(crit []CritView, levels []map[string]float64, order []SnapAlt, mg *marginT) (left []SnapAlt, elim []elimRec, levelsReached int) {
	left = append([]SnapAlt{}, order...)
	if len(left) <= 1 {
		return
	}
outer:
	for k, L := range levels {
		levelsReached = k + 1
		for ci := range crit {
			c := &crit[ci]
			snapshot := append([]SnapAlt{}, left...)
			for _, a := range snapshot {
				x, t := signed(c, a.Vals[c.Id]), signed(c, L[c.Id])
				mg.cmp(x, t)
				if x < t {
					var nl []SnapAlt
					for _, y := range left {
						if y.Id != a.Id {
							nl = append(nl, y)
						}
					}
					left = nl
					elim = append(elim, elimRec{a.Id, k, c.Id, L[c.Id]})
				}
				if len(left) <= 1 {
					break outer
				}
			}
		}
	}
	return
}

// reachability helpers shared by C12/C13
func reachMap(r *Resp) map[string]map[string]bool {
	adj := map[string][]string{}
	for _, e := range r.Result {
		adj[e.Alternative.Id] = e.BetterThanOrSameAs
	}
	out := map[string]map[string]bool{}
	for _, e := range r.Result {
		id := e.Alternative.Id
		reach := map[string]bool{}
		stack := []string{id}
		for len(stack) > 0 {
			x := stack[len(stack)-1]
			stack = stack[:len(stack)-1]
			for _, y := range adj[x] {
				if !reach[y] {
					reach[y] = true
					stack = append(stack, y)
				}
			}
		}
		delete(reach, id)
		out[id] = reach
	}
	return out
}

// chainLinks: an entry reaches every entry ranked below it and none ranked above it,
// except inside the tie class (survivors / leftovers) where nothing is claimed.
func chainLinks(r *Resp, tied map[string]bool) string {
	reach := reachMap(r)
	for i, a := range r.Result {
		for j, b := range r.Result {
			if i == j || (tied[a.Alternative.Id] && tied[b.Alternative.Id]) {
				continue
			}
			want := i < j
			if reach[a.Alternative.Id][b.Alternative.Id] != want {
				return fmt.Sprintf("links: %s (position %d) reaches %s (position %d) = %v", a.Alternative.Id, i, b.Alternative.Id, j, !want)
			}
		}
	}
	return ""
}

func matchAspect(left []SnapAlt, elim []elimRec, r *Resp) string {
	if len(r.Result) != len(left)+len(elim) {
		return fmt.Sprintf("response has %d entries, simulation ranks %d", len(r.Result), len(left)+len(elim))
	}
	surv := map[string]bool{}
	for _, a := range left {
		surv[a.Id] = true
	}
	for p := 0; p < len(left); p++ {
		if !surv[r.Result[p].Alternative.Id] {
			return fmt.Sprintf("position %d holds %s, expected a survivor %v", p, r.Result[p].Alternative.Id, sortedKeys(surv))
		}
		// the walk stops as soon as one alternative is left: a survivor has failed no check
		if nst := numMap(r.Result[p].Evaluation["notSatisfiedThreshold"]); len(nst) != 0 {
			return fmt.Sprintf("survivor %s reports a failed threshold %v", r.Result[p].Alternative.Id, nst)
		}
	}
	for p := len(left); p < len(r.Result); p++ {
		e := elim[len(elim)-1-(p-len(left))]
		o := r.Result[p]
		nst := numMap(o.Evaluation["notSatisfiedThreshold"])
		if o.Alternative.Id != e.id {
			return fmt.Sprintf("position %d holds %s, reverse elimination order gives %s", p, o.Alternative.Id, e.id)
		}
		t, has := nst[e.c]
		if int(num(o.Evaluation["thresholdsIndex"])) != e.k || len(nst) != 1 || !has || !closeRel(t, e.t) {
			return fmt.Sprintf("%s reports level %v threshold %v, it failed level %d criterion %s threshold %v", e.id, o.Evaluation["thresholdsIndex"], nst, e.k, e.c, e.t)
		}
	}
	return chainLinks(r, surv)
}

// criteriaOrders enumerates criteria orders by descending weight; ties in every order.
func criteriaOrders(crit []CritView, w map[string]float64, f func(order []CritView) bool) {
	cs := append([]CritView{}, crit...)
	sort.SliceStable(cs, func(i, j int) bool { return w[cs[i].Id] > w[cs[j].Id] })
	// tie groups
	var groups [][]CritView
	for i := 0; i < len(cs); {
		j := i
		for j < len(cs) && w[cs[j].Id] == w[cs[i].Id] {
			j++
		}
		groups = append(groups, cs[i:j])
		i = j
	}
	var rec func(gi int, acc []CritView) bool
	rec = func(gi int, acc []CritView) bool {
		if gi == len(groups) {
			return f(acc)
		}
		g := groups[gi]
		done := false
		permutations(len(g), func(p []int) bool {
			next := append([]CritView{}, acc...)
			for _, i := range p {
				next = append(next, g[i])
			}
			if rec(gi+1, next) {
				done = true
				return true
			}
			return false
		})
		return done
	}
	rec(0, nil)
}

func judgeC12(c ReqCase) *Fail {
	body := []byte(c.Req)
	v := viewReq(parseReqM(body))
	snap, r, out, f := finalState(body)
	if f != nil {
		return f
	}
	if !out.OK && strings.Contains(out.Err, "unsupported value") && overflowExcused(body) {
		st.inc("skipped-exp-overflow") // the documented exponential anchoring formula is not a finite float64 here
		return nil
	}
	if !out.OK {
		return failf("aspect-accepted", "valid aspect-elimination request rejected: %s", out.Err)
	}
	w, _, wok := finalWeights(v, r, snap.critIds())
	if !wok {
		return failf("params-reconstruct", "cannot reconstruct the weight of every final criterion %v from request and reports", snap.critIds())
	}
	mg := newMargin()
	levels, generated, endless := refLevelsV(v, true, snap, mg, r)
	if endless {
		return failf("series-ends", "the generated series does not end within %d levels", seriesCap)
	}
	randomOrder, _ := v.MP["randomAlternativesOrdering"].(bool)
	consReq, cf := consideredInRequestOrder(v, snap)
	if cf != nil {
		return cf
	}
	matched := false
	var why string
	var bestLeft []SnapAlt
	var bestElim []elimRec
	reached := 0
	tiedWeights := false
	seen := map[float64]bool{}
	for _, cr := range snap.Crit {
		if seen[w[cr.Id]] {
			tiedWeights = true
		}
		seen[w[cr.Id]] = true
	}
	// equal weights are ordered by the seeded generator: the oracle tries every tie-break, which is only feasible for few
	tieBreaks, cnt := 1.0, map[float64]int{}
	for _, cr := range snap.Crit {
		cnt[w[cr.Id]]++
		tieBreaks *= float64(cnt[w[cr.Id]])
	}
	if tieBreaks > 5040 {
		st.inc("C12:too-many-tie-breaks-not-judged")
		return nil
	}
	criteriaOrders(snap.Crit, w, func(corder []CritView) bool {
		try := func(p []int) bool {
			order := make([]SnapAlt, len(p))
			for i, x := range p {
				order[i] = consReq[x]
			}
			left, elim, lr := refAspect(corder, levels, order, mg)
			if wy := matchAspect(left, elim, r); wy == "" {
				matched, bestLeft, bestElim, reached = true, left, elim, lr
				return true
			} else if why == "" {
				why = wy
			}
			return false
		}
		if !randomOrder {
			id := make([]int, len(snap.Cons))
			for i := range id {
				id[i] = i
			}
			return try(id)
		}
		done := false
		permutations(len(snap.Cons), func(p []int) bool {
			if try(p) {
				done = true
			}
			return done
		})
		return done
	})
	if mg.min < 1e-9 {
		st.inc("C12:ambiguous")
		return nil
	}
	// run-level aggregate as in C11 / C13: random alternative order, distinct weights, an outcome that depends on the
	// order - is it ever anything but the listing-order walk? (apart for requests whose criteria set a bias changed)
	if matched && randomOrder && !tiedWeights && len(snap.Cons) >= 3 && len(snap.Cons) <= 6 {
		if same, sensitive := c12ListingOrder(snap, w, levels, consReq, r); sensitive {
			_ = same
			name := "C12agg-order"
			var declared []string
			for _, cv := range v.Criteria {
				declared = append(declared, cv.Id)
			}
			if fmt.Sprint(snap.critIds()) != fmt.Sprint(declared) {
				name = "C12agg-order-after-bias"
			}
			aggCollect(name, c.Req, 300)
		}
	}
	if !matched {
		kind := "exact"
		if randomOrder || tiedWeights {
			kind = "for some alternative order / tie-break of equal weights"
		}
		return failf("reverse-elimination-order", "response is not the elimination walk (%s): %s\n levels %v\n response %s", kind, why, levels, mustJSON(r.Result))
	}
	st.inc("C12:matched")
	if generated {
		st.inc("C12:generated-series")
	}
	if tiedWeights {
		st.inc("C12:tied-weights")
	}
	if randomOrder {
		st.inc("C12:random-order")
	}
	if len(bestLeft) > 1 {
		st.inc("C12:multi-survivor")
	}
	sameCheck := false
	for i := 1; i < len(bestElim); i++ {
		if bestElim[i].k == bestElim[i-1].k && bestElim[i].c == bestElim[i-1].c {
			sameCheck = true
		}
	}
	if len(r.Result) >= 3 && (reached >= 2 || sameCheck) {
		st.nontrivial("C12", c.Req)
		st.sample("C12", M{"request": parseReqM(body), "result_ids": resultIds(r)})
	}
	return nil
}

func genC12(t *rapid.T) ReqCase {
	g := G{t}
	o := GenOpts{Methods: []string{"aspectEliminationHeuristic"}, MaxAlts: 6, MaxCrit: 4, ValueMode: -1}
	if g.Chance(1, 2) {
		o.ValueMode = vmDyadic
	}
	if g.Chance(1, 3) {
		o.MaxBiases = 2
	}
	if g.Chance(1, 2) {
		o.FixedOrder = true
		o.MaxAlts = 7
		o.BigTiers, o.ValueScales = true, true
	}
	return mkReqCase(genHeuristicReq(t, o))
}

// genHeuristicReq: with an explicit threshold list a criterion-adding bias extends the list with seeded
// random thresholds (only visible in the reports); such cases are generated again without adding biases.
func genHeuristicReq(t *rapid.T, o GenOpts) GenReq {
	gr := genRequest(t, o)
	if str(asM(gr.Req["methodParameters"])["function"]) != "thresholds" {
		return gr
	}
	adds := false
	for _, b := range asL(gr.Req["biases"]) {
		bm := b.(M)
		switch str(bm["name"]) {
		case "criteriaConcealment", "criteriaMixing":
			adds = true
		case "anchoring":
			adds = adds || str(asM(asM(bm["props"])["applier"])["function"]) == "newCriterion"
		}
	}
	if adds {
		gr.Labels = append(gr.Labels, "thresholdsWithAddedCriterion")
	}
	return gr
}

// ---------------------------------------------------------------- C13

type accRec struct {
	id string
	k  int
}

func refSatisfaction(crit []CritView, levels []map[string]float64, order []SnapAlt, mg *marginT) (acc []accRec, left []SnapAlt) {
	left = append([]SnapAlt{}, order...)
	for k, L := range levels {
		var nl []SnapAlt
		for _, a := range left {
			good := true
			for ci := range crit {
				c := &crit[ci]
				x, t := signed(c, a.Vals[c.Id]), signed(c, L[c.Id])
				mg.cmp(x, t)
				if x < t {
					good = false
				}
			}
			if good {
				acc = append(acc, accRec{a.Id, k})
			} else {
				nl = append(nl, a)
			}
		}
		left = nl
		if len(left) == 0 {
			break
		}
	}
	return
}

func matchSatisfaction(s *Snap, levels []map[string]float64, acc []accRec, left []SnapAlt, r *Resp) string {
	if len(r.Result) != len(acc)+len(left) {
		return fmt.Sprintf("response has %d entries, simulation ranks %d", len(r.Result), len(acc)+len(left))
	}
	for p, a := range acc {
		o := r.Result[p]
		if o.Alternative.Id != a.id {
			return fmt.Sprintf("position %d holds %s, acceptance order gives %s", p, o.Alternative.Id, a.id)
		}
		if int(num(o.Evaluation["thresholdsIndex"])) != a.k {
			return fmt.Sprintf("%s reports level %v, it is first satisfied at level %d", a.id, o.Evaluation["thresholdsIndex"], a.k)
		}
		sth := numMap(o.Evaluation["satisfiedThresholds"])
		for _, c := range s.Crit {
			t, has := sth[c.Id]
			if !has || !closeRel(t, levels[a.k][c.Id]) {
				return fmt.Sprintf("%s reports thresholds %v, level %d is %v", a.id, sth, a.k, levels[a.k])
			}
			// really satisfies what it reports
			if signed(&c, s.alt(a.id).Vals[c.Id]) < signed(&c, t) {
				return fmt.Sprintf("%s does not satisfy its reported threshold on %s (%v vs %v)", a.id, c.Id, s.alt(a.id).Vals[c.Id], t)
			}
		}
	}
	lo := map[string]bool{}
	for _, a := range left {
		lo[a.Id] = true
	}
	for p := len(acc); p < len(r.Result); p++ {
		o := r.Result[p]
		if !lo[o.Alternative.Id] {
			return fmt.Sprintf("position %d holds %s, expected an alternative that met no level %v", p, o.Alternative.Id, sortedKeys(lo))
		}
		if int(num(o.Evaluation["thresholdsIndex"])) != len(levels) {
			return fmt.Sprintf("%s met no level and reports index %v, the index after the last level is %d", o.Alternative.Id, o.Evaluation["thresholdsIndex"], len(levels))
		}
		sth := numMap(o.Evaluation["satisfiedThresholds"])
		for _, c := range s.Crit {
			mn, mx := levelRange(s, c.Id)
			worst := mn
			if c.Cost {
				worst = mx
			}
			if t, has := sth[c.Id]; !has || !closeRel(t, worst) {
				return fmt.Sprintf("%s met no level and reports %v for %s, the worst value of its range [%v,%v] is %v", o.Alternative.Id, sth[c.Id], c.Id, mn, mx, worst)
			}
		}
	}
	return chainLinks(r, lo)
}

func judgeC13(c ReqCase) *Fail {
	body := []byte(c.Req)
	v := viewReq(parseReqM(body))
	refLevelsReq = v
	defer func() { refLevelsReq = nil }()
	snap, r, out, f := finalState(body)
	if f != nil {
		return f
	}
	if !out.OK && strings.Contains(out.Err, "unsupported value") && overflowExcused(body) {
		st.inc("skipped-exp-overflow") // the documented exponential anchoring formula is not a finite float64 here
		return nil
	}
	if !out.OK {
		return failf("satisfaction-accepted", "valid satisfaction request rejected: %s", out.Err)
	}
	mg := newMargin()
	levels, generated, endless := refLevelsR(v.MP, false, snap, mg, r)
	if endless {
		return failf("series-ends", "the generated series does not end within %d levels", seriesCap)
	}
	randomOrder, _ := v.MP["randomAlternativesOrdering"].(bool)
	cc := str(v.MP["currentChoice"])
	cons, cf := consideredInRequestOrder(v, snap)
	if cf != nil {
		return cf
	}
	var first *SnapAlt
	var rest []SnapAlt
	if cc != "" {
		first = snap.alt(cc)
		for _, a := range cons {
			if a.Id != cc {
				rest = append(rest, a)
			}
		}
	} else {
		rest = append(rest, cons...)
	}
	matched := false
	var why string
	var bAcc []accRec
	var bLeft []SnapAlt
	try := func(p []int) bool {
		var order []SnapAlt
		if first != nil {
			order = append(order, *first)
		}
		for _, i := range p {
			order = append(order, rest[i])
		}
		acc, left := refSatisfaction(snap.Crit, levels, order, mg)
		if wy := matchSatisfaction(snap, levels, acc, left, r); wy == "" {
			matched, bAcc, bLeft = true, acc, left
			return true
		} else if why == "" {
			why = wy
		}
		return false
	}
	id := make([]int, len(rest))
	for i := range id {
		id[i] = i
	}
	if !randomOrder {
		try(id)
	} else {
		permutations(len(rest), func(p []int) bool { return try(p) })
		// run-level aggregate: where the search order matters (some order does not reproduce the response), is the
		// response ever anything but the listing-order walk? Kept apart for requests whose criteria set a bias changed
		// (the method parameters, with the ordering flag and its seed, were rebuilt by the bias listener).
		if matched && len(rest) >= 3 && len(rest) <= 6 && mg.min >= 1e-9 {
			sensitive := false
			permutations(len(rest), func(p []int) bool {
				var order []SnapAlt
				if first != nil {
					order = append(order, *first)
				}
				for _, i := range p {
					order = append(order, rest[i])
				}
				acc, left := refSatisfaction(snap.Crit, levels, order, newMargin())
				if matchSatisfaction(snap, levels, acc, left, r) != "" {
					sensitive = true
				}
				return sensitive
			})
			if sensitive {
				name := "C13agg-order"
				var declared []string
				for _, cv := range v.Criteria {
					declared = append(declared, cv.Id)
				}
				if fmt.Sprint(snap.critIds()) != fmt.Sprint(declared) {
					name = "C13agg-order-after-bias"
				}
				aggCollect(name, c.Req, 300)
			}
		}
	}
	if mg.min < 1e-9 {
		st.inc("C13:ambiguous")
		return nil
	}
	if !matched {
		return failf("order-of-acceptance", "response is not the acceptance walk (random order=%v, current choice %q): %s\n levels %v\n response %s", randomOrder, cc, why, levels, mustJSON(r.Result))
	}
	st.inc("C13:matched")
	if generated {
		st.inc("C13:generated-series")
	}
	if randomOrder {
		st.inc("C13:random-order")
	}
	if len(bLeft) > 0 {
		st.inc("C13:leftover")
	}
	if cc != "" && v.isChosen(cc) {
		st.inc("C13:current-choice-considered")
		if len(bLeft) > 0 {
			st.inc("C13:current-choice-considered-with-leftover")
		}
	}
	lv := map[int]bool{}
	for _, a := range bAcc {
		lv[a.k] = true
	}
	if len(r.Result) >= 3 && (len(lv) >= 2 || len(bLeft) > 0) {
		st.nontrivial("C13", c.Req)
		st.sample("C13", M{"request": parseReqM(body), "result_ids": resultIds(r)})
	}
	return nil
}

func genC13(t *rapid.T) ReqCase {
	g := G{t}
	o := GenOpts{Methods: []string{"satisfactionHeuristic"}, MaxAlts: 6, MaxCrit: 4, ValueMode: -1}
	if g.Chance(1, 2) {
		o.ValueMode = vmDyadic
	}
	if g.Chance(1, 3) {
		o.MaxBiases = 2
	}
	if g.Chance(1, 2) {
		o.FixedOrder = true
		o.MaxAlts = 7
		o.BigTiers, o.ValueScales = true, true
	}
	return mkReqCase(genHeuristicReq(t, o))
}

// c12ListingOrder: does the listing-order walk reproduce the response, and does any order fail to (distinct weights)?
func c12ListingOrder(snap *Snap, w map[string]float64, levels []map[string]float64, consReq []SnapAlt, r *Resp) (same, sensitive bool) {
	criteriaOrders(snap.Crit, w, func(corder []CritView) bool {
		left, elim, _ := refAspect(corder, levels, consReq, newMargin())
		same = matchAspect(left, elim, r) == ""
		permutations(len(consReq), func(p []int) bool {
			order := make([]SnapAlt, len(p))
			for i, x := range p {
				order[i] = consReq[x]
			}
			l2, e2, _ := refAspect(corder, levels, order, newMargin())
			if matchAspect(l2, e2, r) != "" {
				sensitive = true
			}
			return sensitive
		})
		return true
	})
	return
}

func judgeC12AggOrder(c AggCase) *Fail {
	n, nonIdentity := 0, 0
	for _, req := range c.Reqs {
		body := []byte(req)
		v := viewReq(parseReqM(body))
		snap, r, out, f := finalState(body)
		if f != nil || !out.OK {
			continue
		}
		w, _, wok := finalWeights(v, r, snap.critIds())
		levels, _, endless := refLevelsV(v, true, snap, newMargin(), r)
		consReq, cf := consideredInRequestOrder(v, snap)
		if !wok || endless || cf != nil {
			continue
		}
		same, _ := c12ListingOrder(snap, w, levels, consReq, r)
		n++
		if !same {
			nonIdentity++
		}
	}
	if n >= 40 && nonIdentity == 0 {
		return failf("seeded-random-search-order", "%d aspect-elimination decisions with randomAlternativesOrdering=true whose outcome depends on the alternative order all equal the listing-order walk", n)
	}
	return nil
}

// c13ListingOrderMatches: does the listing-order walk (current choice first) reproduce the response?
func c13ListingOrderMatches(req string) (bool, bool) {
	body := []byte(req)
	v := viewReq(parseReqM(body))
	refLevelsReq = v
	defer func() { refLevelsReq = nil }()
	snap, r, out, f := finalState(body)
	if f != nil || !out.OK {
		return false, false
	}
	mg := newMargin()
	levels, _, endless := refLevelsR(v.MP, false, snap, mg, r)
	cons, cf := consideredInRequestOrder(v, snap)
	if endless || cf != nil {
		return false, false
	}
	var order []SnapAlt
	cc := str(v.MP["currentChoice"])
	if cc != "" {
		if a := snap.alt(cc); a != nil {
			order = append(order, *a)
		}
	}
	for _, a := range cons {
		if a.Id != cc {
			order = append(order, a)
		}
	}
	acc, left := refSatisfaction(snap.Crit, levels, order, mg)
	return matchSatisfaction(snap, levels, acc, left, r) == "", true
}

func judgeC13AggOrder(c AggCase) *Fail {
	n, nonIdentity := 0, 0
	for _, req := range c.Reqs {
		same, ok := c13ListingOrderMatches(req)
		if !ok {
			continue
		}
		n++
		if !same {
			nonIdentity++
		}
	}
	if n >= 40 && nonIdentity == 0 {
		return failf("seeded-random-search-order", "%d satisfaction decisions with randomAlternativesOrdering=true whose outcome depends on the search order all equal the listing-order walk", n)
	}
	return nil
}

func init() {
	register("C12", "C12", 1, genC12, judgeC12)
	register("C13", "C13", 1, genC13, judgeC13)
	registerAggregate("C12", "C12agg-order", judgeC12AggOrder)
	registerAggregate("C12", "C12agg-order-after-bias", judgeC12AggOrder)
	registerAggregate("C13", "C13agg-order", judgeC13AggOrder)
	registerAggregate("C13", "C13agg-order-after-bias", judgeC13AggOrder)
}

func TestC12(t *testing.T) {
	runRegistered(t, "C12")
	runAggregate(t, "C12", "C12agg-order", 40, judgeC12AggOrder)
	runAggregate(t, "C12", "C12agg-order-after-bias", 40, judgeC12AggOrder)
}
func TestC13(t *testing.T) {
	runRegistered(t, "C13")
	runAggregate(t, "C13", "C13agg-order", 40, judgeC13AggOrder)
	runAggregate(t, "C13", "C13agg-order-after-bias", 40, judgeC13AggOrder)
}
