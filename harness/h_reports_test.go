package main_test

// Views over the bias reports in a response (`biases[i].props`).

type AddedCrit struct {
	Bias   int // index in resp.Biases
	Id     string
	Cost   bool
	Params M                  // method-parameter addition as reported
	Values map[string]float64 // alternative id -> value
	HasRng bool
	Min    float64
	Max    float64
}

func numMap(v interface{}) map[string]float64 {
	m := asM(v)
	if m == nil {
		return nil
	}
	r := make(map[string]float64, len(m))
	for k, x := range m {
		r[k] = num(x)
	}
	return r
}

// addedCriteria lists every criterion a bias reports to have added, in pipeline order.
func addedCriteria(r *Resp) []AddedCrit {
	var out []AddedCrit
	for i := range r.Biases {
		b := &r.Biases[i]
		p := b.propsMap()
		if p == nil {
			continue
		}
		switch b.Name {
		case "criteriaConcealment":
			for _, a := range asL(p["addedCriteria"]) {
				am := a.(M)
				ac := AddedCrit{Bias: i, Id: str(am["id"]), Cost: str(am["type"]) == "cost", Params: asM(am["methodParameters"]), Values: numMap(am["alternativesValues"])}
				if vr := asM(am["valuesRange"]); vr != nil {
					ac.HasRng, ac.Min, ac.Max = true, num(vr["min"]), num(vr["max"])
				}
				out = append(out, ac)
			}
		case "criteriaMixing":
			nc := asM(p["newCriterion"])
			if nc == nil {
				continue
			}
			out = append(out, AddedCrit{Bias: i, Id: str(nc["id"]), Cost: str(nc["type"]) == "cost", Params: asM(p["params"]), Values: numMap(nc["scaledValues"])})
		case "anchoring":
			ar := asM(p["applierResult"])
			for _, a := range asL(ar["addedCriteria"]) {
				am := a.(M)
				ac := AddedCrit{Bias: i, Id: str(am["id"]), Cost: str(am["type"]) == "cost", Params: asM(am["methodParameters"]), Values: numMap(am["alternativesValues"])}
				if vr := asM(am["valuesRange"]); vr != nil {
					ac.HasRng, ac.Min, ac.Max = true, num(vr["min"]), num(vr["max"])
				}
				out = append(out, ac)
			}
		}
	}
	return out
}

// omittedCriteria lists the ids each omission reports, keyed by bias index.
func omittedCriteria(b *RespBias) []string {
	p := b.propsMap()
	var ids []string
	for _, c := range asL(p["omittedCriteria"]) {
		ids = append(ids, str(c.(M)["id"]))
	}
	return ids
}

// finalWeights reconstructs, for weight-based methods, the weight and type of
// every criterion the alternatives are finally evaluated on: request weights
// for declared criteria, the reported addition for added ones (last report wins).
func finalWeights(v *ReqView, r *Resp, finalCrit []string) (w map[string]float64, cost map[string]bool, ok bool) {
	w, cost = map[string]float64{}, map[string]bool{}
	reqW := numMap(v.MP["weights"])
	added := addedCriteria(r)
	for _, id := range finalCrit {
		found := false
		for i := len(added) - 1; i >= 0; i-- {
			if added[i].Id == id {
				aw := numMap(added[i].Params["weights"])
				if x, has := aw[id]; has {
					w[id], cost[id], found = x, added[i].Cost, true
				}
				break
			}
		}
		if !found {
			if c := v.crit(id); c != nil {
				if x, has := reqW[id]; has {
					w[id], cost[id], found = x, c.Cost, true
				}
			}
		}
		if !found {
			return nil, nil, false
		}
	}
	return w, cost, true
}
