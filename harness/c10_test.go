package main_test

// C10 — concurrent requests do not influence each other.

import (
	"encoding/json"
	"fmt"
	"os"
	"path/filepath"
	"sort"
	"strings"
	"sync"
	"testing"

	"pgregory.net/rapid"
)

type C10Case struct {
	Reqs   []string `json:"requests"`
	Copies []int    `json:"copies"` // goroutines per request
}

func sameHTTP(alone, conc HTTPResp) string {
	if alone.Code != conc.Code {
		return fmt.Sprintf("status %d alone, %d concurrently (%s)", alone.Code, conc.Code, conc.Body)
	}
	if alone.Code == 200 && alone.Body != conc.Body {
		return fmt.Sprintf("body differs:\n alone        %s\n concurrently %s", alone.Body, conc.Body)
	}
	return ""
}

func c10Run(c C10Case, do func([]byte) (HTTPResp, error)) *Fail {
	alone := make([]HTTPResp, len(c.Reqs))
	for i, r := range c.Reqs {
		a, err := do([]byte(r))
		if err != nil {
			return failf("answered", "request %d got no answer when decided alone: %v", i, err)
		}
		alone[i] = a
	}
	for round := 0; round < 3; round++ {
		var wg sync.WaitGroup
		var mu sync.Mutex
		var bad string
		start := make(chan struct{})
		for i := range c.Reqs {
			for k := 0; k < c.Copies[i]; k++ {
				wg.Add(1)
				go func(i int) {
					defer wg.Done()
					<-start
					got, err := do([]byte(c.Reqs[i]))
					var d string
					if err != nil {
						d = "no answer: " + err.Error()
					} else {
						d = sameHTTP(alone[i], got)
					}
					if d != "" {
						mu.Lock()
						if bad == "" {
							bad = fmt.Sprintf("request %d (round %d): %s", i, round, d)
						}
						mu.Unlock()
					}
				}(i)
			}
		}
		close(start)
		wg.Wait()
		if bad != "" {
			return failf("concurrent-equals-sequential", "%s", bad)
		}
	}
	return nil
}

func judgeC10(c C10Case) *Fail {
	f := c10Run(c, func(b []byte) (HTTPResp, error) { return handleInProcess(b), nil })
	if f != nil {
		return f
	}
	c10Stats(c, "C10")
	c10CorpusAdd(c)
	return nil
}

// ---- cold start: the very first requests a fresh process serves run concurrently (nothing is decided
// sequentially beforehand, so lazily initialised shared state is first touched by several goroutines)

var c10CorpusMu sync.Mutex
var c10CorpusN int

func c10CorpusAdd(c C10Case) {
	dir := os.Getenv("VERIF_BUILD_DIR")
	if dir == "" || os.Getenv("VERIF_PHASE") == "post" {
		return
	}
	c10CorpusMu.Lock()
	defer c10CorpusMu.Unlock()
	if c10CorpusN >= 40 {
		return
	}
	c10CorpusN++
	f, err := os.OpenFile(filepath.Join(dir, "c10corpus-"+os.Getenv("VERIF_SHARD")+".jsonl"), os.O_APPEND|os.O_CREATE|os.O_WRONLY, 0o644)
	if err != nil {
		return
	}
	f.Write(append(mustJSON(c), '\n'))
	f.Close()
}

func judgeC10Cold(c C10Case) *Fail {
	do := func(b []byte) HTTPResp { return handleInProcess(b) }
	type res struct {
		i int
		r HTTPResp
	}
	var wg sync.WaitGroup
	out := make(chan res, 256)
	start := make(chan struct{})
	for i := range c.Reqs {
		for k := 0; k < c.Copies[i]; k++ {
			wg.Add(1)
			go func(i int) {
				defer wg.Done()
				<-start
				out <- res{i, do([]byte(c.Reqs[i]))}
			}(i)
		}
	}
	close(start)
	wg.Wait()
	close(out)
	alone := make([]HTTPResp, len(c.Reqs))
	for i, r := range c.Reqs {
		alone[i] = do([]byte(r))
	}
	for x := range out {
		if d := sameHTTP(alone[x.i], x.r); d != "" {
			return failf("cold-concurrent-equals-sequential", "request %d answered differently when it was among the first concurrent requests of the process: %s", x.i, d)
		}
	}
	return nil
}

// TestC10Cold is the post phase: one fresh process per batch, concurrent first.
func TestC10Cold(t *testing.T) {
	if os.Getenv("VERIF_PHASE") != "post" {
		t.Skip("post phase only")
	}
	files, _ := filepath.Glob(filepath.Join(os.Getenv("VERIF_BUILD_DIR"), "c10corpus-*.jsonl"))
	sort.Strings(files)
	var all []C10Case
	for _, fn := range files {
		b, _ := os.ReadFile(fn)
		for _, line := range strings.Split(string(b), "\n") {
			var c C10Case
			if line != "" && json.Unmarshal([]byte(line), &c) == nil {
				all = append(all, c)
			}
		}
	}
	if len(all) == 0 {
		t.Fatalf("empty C10 corpus")
	}
	k := int(envInt("VERIF_SHARD", 0))
	// a diverse cold batch: three recorded batches merged, every request by two goroutines
	var c C10Case
	for j := 0; j < 3; j++ {
		b := all[(k*3+j)%len(all)]
		c.Reqs = append(c.Reqs, b.Reqs...)
	}
	for range c.Reqs {
		c.Copies = append(c.Copies, 2)
	}
	st.inc("evaluations:C10cold")
	writeCurCase("C10", "C10cold", c)
	if f := judgeC10Cold(c); f != nil {
		writeReplay("C10", "C10cold", c, f)
		t.Fatalf("VIOLATION-CANDIDATE property=C10 check=C10cold rule=%s: %s", f.Rule, f.Detail)
	}
	st.inc("C10:cold-start-batches")
	st.nontrivial("C10cold", fmt.Sprint(c.Reqs))
}

func c10Stats(c C10Case, name string) {
	methods, bs := map[string]int{}, map[string]int{}
	accepted := 0
	for _, r := range c.Reqs {
		v := viewReq(parseReqM([]byte(r)))
		methods[v.Method]++
		for _, b := range v.biasNames() {
			bs[b]++
		}
		if handleInProcess([]byte(r)).Code == 200 {
			accepted++
		} else {
			st.inc("C10:rejected-request-in-batch")
		}
	}
	shared := false
	for _, n := range methods {
		shared = shared || n >= 2
	}
	for _, n := range bs {
		shared = shared || n >= 2
	}
	if shared && accepted >= 2 {
		st.nontrivial(name, fmt.Sprint(c.Reqs))
		st.sample(name, M{"requests": len(c.Reqs), "goroutines": c.Copies})
	}
}

func genC10(t *rapid.T) C10Case {
	g := G{t}
	k := g.Int(2, 12)
	var c C10Case
	if g.Chance(1, 4) {
		// one request whose biases rebuild the method parameters (listener paths: removal, addition, merge), decided
		// by up to eight goroutines at once, next to one or two other requests
		o := GenOpts{MaxBiases: 3, MinBiases: 1, ValueMode: -1, MaxAlts: 5, BiasLikeIds: true,
			Biases: []string{"criteriaOmission", "criteriaConcealment", "criteriaMixing"}}
		c.Reqs = append(c.Reqs, string(mustJSON(genRequest(t, o).Req)))
		c.Copies = append(c.Copies, g.Int(4, 8))
		for i, n := 0, g.Int(0, 2); i < n; i++ {
			c.Reqs = append(c.Reqs, string(mustJSON(genRequest(t, GenOpts{MaxBiases: 3, ValueMode: -1, MaxAlts: 5, AllowProb: true}).Req)))
			c.Copies = append(c.Copies, g.Int(1, 2))
		}
		return c
	}
	for i := 0; i < k; i++ {
		if i > 0 && g.Chance(1, 4) { // identical requests running simultaneously
			c.Reqs = append(c.Reqs, c.Reqs[g.Int(0, i-1)])
		} else {
			o := GenOpts{MaxBiases: 3, ValueMode: -1, MaxAlts: 5, AllowProb: true, BiasLikeIds: true}
			if g.Chance(1, 2) {
				o.Methods = heuristicMethods // generated level series, thresholds
			}
			gr := genRequest(t, o)
			if g.Chance(1, 6) {
				gr = mutateConstraint(t, gr)
			}
			c.Reqs = append(c.Reqs, string(mustJSON(gr.Req)))
		}
		c.Copies = append(c.Copies, g.Int(1, 4))
	}
	return c
}

// ---- thorough: the same batches against a -race build of the real server process

func judgeC10Server(c C10Case) *Fail {
	if err := theServer.ensure(); err != nil {
		return failf("harness-server", "cannot start the server: %v", err)
	}
	f := c10Run(c, theServer.post)
	if rr := theServer.raceReport(); rr != "" {
		theServer.stop()
		if len(rr) > 3000 {
			rr = rr[:3000]
		}
		return failf("data-race", "the race detector of the server process reports:\n%s", rr)
	}
	if !theServer.alive() {
		return failf("process-survives", "the server process died during the batch")
	}
	if f != nil {
		return f
	}
	c10Stats(c, "C10server")
	return nil
}

func init() {
	curCaseChecks["C10"] = true
	curCaseChecks["C10cold"] = true
	register("C10", "C10", 1, genC10, judgeC10)
	register("C10", "C10cold", 0.0001, genC10, judgeC10Cold)
	register("C10", "C10server", 0.25, genC10, judgeC10Server)
}

func TestC10(t *testing.T) { runRegistered(t, "C10") }

func TestC10Server(t *testing.T) {
	if os.Getenv("VERIF_TIER") != "thorough" && os.Getenv("VERIF_REPLAY") == "" {
		t.Skip("thorough tier only")
	}
	runRegistered(t, "C10server")
}
