package main

// The harness lives in the external test package (package main_test) so that its own identifiers can never
// collide with anything main.go declares; this file, compiled into package main for tests only, hands it
// the service's unexported registries and handlers.

import (
	satisfaction_levels "github.com/Azbesciak/RealDecisionMaker/lib/logic/limited-rationality/satisfaction-levels"
	"github.com/Azbesciak/RealDecisionMaker/lib/model"
	reference_criterion "github.com/Azbesciak/RealDecisionMaker/lib/model/reference-criterion"
	"github.com/gin-gonic/gin"
)

func VerifHarnessFuncs() model.PreferenceFunctions   { return funcs }
func VerifHarnessBiasListeners() model.BiasListeners { return biasListeners }
func VerifHarnessBiases() model.BiasMap              { return biases }
func VerifHarnessDecideHandler(c *gin.Context)       { decideHandler(c) }
func VerifHarnessFunctionsHandler(c *gin.Context)    { functionsHandler(c) }
func VerifHarnessDecreasingLevels() []satisfaction_levels.SatisfactionLevelsSource {
	return decreasingSatisfactionLevels
}
func VerifHarnessIncreasingLevels() []satisfaction_levels.SatisfactionLevelsSource {
	return increasingSatisfactionLevels
}
func VerifHarnessReferenceCriterionManager() reference_criterion.ReferenceCriteriaManager {
	return referenceCriterionManager
}
