package main_test

// C08 — bias switches and apply-probabilities behave as documented.

import (
	"encoding/json"
	"fmt"
	"math"
	"testing"

	"pgregory.net/rapid"
)

type C08Case struct {
	Req      string    `json:"request"`
	AltProbs []float64 `json:"altProbs"` // replacement probabilities for the other entries (independence)
	Target   int       `json:"target"`   // index among enabled entries
	P2       float64   `json:"p2"`       // another probability for the target (monotonicity)
}

func enabledEntries(bs []M) []int {
	var idx []int
	for i, b := range bs {
		if d, ok := b["disabled"].(bool); ok && d {
			continue
		}
		idx = append(idx, i)
	}
	return idx
}

func probOf(b M) float64 {
	if p, ok := b["applyProbability"]; ok {
		return num(p)
	}
	return 1
}

// firingEntry kinds always produce a non-null report when they fire and keep the request valid.
func genFiringEntry(g G, kind int) M {
	switch kind {
	case 0:
		return M{"name": "fatigue", "props": M{"function": "const", "params": M{"value": g.PickF(0, 0.125, 0.5)}, "randomSeed": g.Seed()}}
	case 1:
		return M{"name": "preferenceReversal", "props": M{"ratio": g.PickF(0, 0.5, 1), "ordering": g.Pick("weakest", "random"), "randomSeed": g.Seed()}}
	case 2:
		return M{"name": "criteriaOmission", "props": M{"ratio": 0.0, "randomSeed": g.Seed()}}
	default:
		return M{"name": probeName, "props": M{"tag": g.Int(0, 9)}}
	}
}

func genProb(g G) (float64, bool) {
	switch g.Int(0, 6) {
	case 0:
		return 1, false // absent
	case 1:
		return 1, true
	case 2:
		return 0, true
	case 3:
		return g.PickF(1e-9, 1-1e-9, 0.5), true
	default:
		return g.Unif(0, 1), true
	}
}

func genC08(t *rapid.T) C08Case {
	g := G{t}
	gr := genRequest(t, GenOpts{MaxBiases: 0, ValueMode: -1, MaxAlts: 4, MaxCrit: 3})
	n := g.Int(0, 6)
	var bs []interface{}
	enabled := 0
	for i := 0; i < n; i++ {
		if g.Chance(1, 4) {
			junk := []interface{}{M{}, "garbage", 5.0, nil, M{"ratio": 7.0, "function": "nope"}, []interface{}{1.0}}
			e := M{"name": g.Pick("noSuchBias", "fatigue", "criteriaOmission", "anchoring", probeName, ""), "disabled": true, "props": junk[g.Int(0, len(junk)-1)]}
			if g.Bool() {
				e["applyProbability"] = g.PickF(0, 1, 0.5)
			}
			bs = append(bs, e)
			continue
		}
		e := genFiringEntry(g, g.Int(0, 3))
		if p, present := genProb(g); present {
			e["applyProbability"] = p
		}
		if g.Chance(1, 5) {
			e["disabled"] = false
		}
		bs = append(bs, e)
		enabled++
	}
	if bs == nil {
		bs = []interface{}{}
	}
	gr.Req["biases"] = bs
	c := C08Case{Req: string(mustJSON(gr.Req))}
	for i := 0; i < enabled; i++ {
		p, _ := genProb(g)
		c.AltProbs = append(c.AltProbs, p)
	}
	if enabled > 0 {
		c.Target = g.Int(0, enabled-1)
	}
	c.P2, _ = genProb(g)
	return c
}

type c08Run struct {
	out   Outcome
	resp  *Resp
	fired []bool // per enabled entry
}

func c08Decide(m M) c08Run {
	out, _ := decideProbed(mustJSON(m), false, false)
	r := c08Run{out: out}
	if out.OK {
		r.resp = parseResp(out.Body)
		for i := range r.resp.Biases {
			r.fired = append(r.fired, !r.resp.Biases[i].propsNull())
		}
	}
	return r
}

func withBiases(m M, bs []M) M {
	c := deepCopyM(m).(M)
	l := make([]interface{}, len(bs))
	for i := range bs {
		l[i] = deepCopyM(bs[i])
	}
	c["biases"] = l
	return c
}

func judgeC08(c C08Case) *Fail {
	m := parseReqM([]byte(c.Req))
	v := viewReq(m)
	bs := v.Biases
	en := enabledEntries(bs)
	base := c08Decide(m)
	if !base.out.OK {
		return failf("c08-accepted", "valid request rejected: %s", base.out.Err)
	}
	// (a) shape: one entry per non-disabled requested bias, in order, echoing name and probability
	if len(base.resp.Biases) != len(en) {
		return failf("one-entry-per-enabled-bias", "%d enabled biases requested, response lists %d: %s", len(en), len(base.resp.Biases), mustJSON(base.resp.Biases))
	}
	// ... literally: every entry carries the keys, whatever their values (a probability of 0 is echoed as 0, not left out)
	var rawEntries struct {
		Biases []map[string]json.RawMessage `json:"biases"`
	}
	_ = json.Unmarshal([]byte(base.out.Body), &rawEntries)
	for k, e := range rawEntries.Biases {
		for _, key := range []string{"name", "applyProbability"} {
			if _, ok := e[key]; !ok {
				return failf("echo-name-probability", "entry %d of the response has no %q: %s", k, key, mustJSON(e))
			}
		}
	}
	inner := false
	for k, i := range en {
		rb := base.resp.Biases[k]
		p := probOf(bs[i])
		if rb.Name != str(bs[i]["name"]) || rb.ApplyProbability != p || rb.Disabled {
			return failf("echo-name-probability", "entry %d: requested %s p=%v, response says %s p=%v disabled=%v", k, str(bs[i]["name"]), p, rb.Name, rb.ApplyProbability, rb.Disabled)
		}
		// (d) probability 1 always fires, 0 never
		if p == 1 && !base.fired[k] {
			return failf("probability-one-fires", "entry %d (%s) has probability 1 (or none) but reports props:null", k, rb.Name)
		}
		if p == 0 && base.fired[k] {
			return failf("probability-zero-never-fires", "entry %d (%s) has probability 0 but fired: %s", k, rb.Name, rb.Props)
		}
		if p > 0 && p < 1 {
			inner = true
		}
	}
	// (b) disabled == absent
	var onlyEnabled []M
	for _, i := range en {
		onlyEnabled = append(onlyEnabled, bs[i])
	}
	if len(onlyEnabled) != len(bs) {
		st.inc("C08:with-disabled-entries")
		r2 := c08Decide(withBiases(m, onlyEnabled))
		if !r2.out.OK || r2.out.Body != base.out.Body {
			return failf("disabled-equals-absent", "removing the disabled entries changes the response:\n with    %s\n without %s %s", base.out.Body, r2.out.Body, r2.out.Err)
		}
	}
	// through the service's own handler: a request that names no biases (key omitted, seed omitted) right after a
	// REJECTED request that carried biases and a seed must report no bias entries and decide like the library does
	prior := deepCopyM(m).(M)
	prior["choseToMake"] = append(asL(prior["choseToMake"]), "noSuchAlternative")
	prior["biasApplyRandomSeed"] = 12345
	bare := deepCopyM(withBiases(m, nil)).(M)
	delete(bare, "biases")
	delete(bare, "biasApplyRandomSeed")
	pr := handleInProcess(mustJSON(prior))
	if pr.Code != 400 {
		return failf("c08-prior-rejected", "a request naming an unknown alternative was answered %d", pr.Code)
	}
	hb := handleInProcess(mustJSON(bare))
	lib := decide(mustJSON(bare))
	if hb.Code != 200 || !lib.OK {
		return failf("c08-accepted", "valid request without biases rejected: %d %s / %s", hb.Code, hb.Body, lib.Err)
	}
	if hr := parseResp(hb.Body); len(hr.Biases) != 0 {
		return failf("one-entry-per-enabled-bias", "a request that names no biases (sent after a rejected request that did) is answered with bias entries: %s", mustJSON(hr.Biases))
	}
	if hb.Body != lib.Body {
		return failf("handler-equals-library", "the handler's answer differs from the library's for the same body:\n handler %s\n library %s", hb.Body, lib.Body)
	}
	st.inc("C08:handler-after-rejected-checked")
	if len(en) == 0 {
		return nil
	}
	t := c.Target % len(en)
	// (c) a non-firing entry changes nothing
	if !base.fired[t] {
		st.inc("C08:non-firing-target")
		repl := append([]M{}, onlyEnabled...)
		other := M{"name": "fatigue", "props": M{"function": "const", "params": M{"value": 0.75}, "randomSeed": 99}}
		if str(onlyEnabled[t]["name"]) == "fatigue" {
			other = M{"name": probeName}
		}
		if p, ok := onlyEnabled[t]["applyProbability"]; ok {
			other["applyProbability"] = p
		}
		repl[t] = other
		r3 := c08Decide(withBiases(m, repl))
		if !r3.out.OK {
			return failf("non-firing-replaceable", "replacing a non-firing entry by another one is rejected: %s", r3.out.Err)
		}
		if string(mustJSON(r3.resp.Result)) != string(mustJSON(base.resp.Result)) {
			return failf("non-firing-changes-nothing", "replacing non-firing entry %d by another non-firing bias changes the result:\n %s\n %s", t, mustJSON(base.resp.Result), mustJSON(r3.resp.Result))
		}
		if r3.fired[t] {
			return failf("firing-depends-only-on-probability", "entry %d did not fire as %s but fires as %s with the same probability and seed", t, str(onlyEnabled[t]["name"]), str(other["name"]))
		}
		for k := range en {
			if k != t && string(base.resp.Biases[k].Props) != string(r3.resp.Biases[k].Props) {
				return failf("non-firing-changes-nothing", "replacing non-firing entry %d changes the report of entry %d", t, k)
			}
		}
		all01 := true
		for k := range onlyEnabled {
			if p := probOf(onlyEnabled[k]); k != t && p != 0 && p != 1 {
				all01 = false
			}
		}
		if all01 {
			var without []M
			for k := range onlyEnabled {
				if k != t {
					without = append(without, onlyEnabled[k])
				}
			}
			r4 := c08Decide(withBiases(m, without))
			if !r4.out.OK || string(mustJSON(r4.resp.Result)) != string(mustJSON(base.resp.Result)) {
				return failf("non-firing-equals-absent", "leaving out non-firing entry %d changes the result (all other probabilities are 0 or 1)", t)
			}
		}
	}
	// (e) independence from the other entries' names, props and probabilities
	indep := make([]M, len(onlyEnabled))
	for k := range onlyEnabled {
		if k == t {
			indep[k] = onlyEnabled[k]
			continue
		}
		e := M{"name": probeName, "props": M{"x": k}}
		if str(onlyEnabled[k]["name"]) == probeName {
			e = M{"name": "fatigue", "props": M{"function": "const", "params": M{"value": 0.25}, "randomSeed": 5}}
		}
		if k < len(c.AltProbs) {
			e["applyProbability"] = c.AltProbs[k]
		}
		indep[k] = e
	}
	r5 := c08Decide(withBiases(m, indep))
	if !r5.out.OK {
		return failf("independence-accepted", "variant with other entries changed is rejected: %s", r5.out.Err)
	}
	if r5.fired[t] != base.fired[t] {
		return failf("firing-independent-of-others", "entry %d (p=%v) fired=%v, but fired=%v after only the OTHER entries' names/props/probabilities changed", t, probOf(onlyEnabled[t]), base.fired[t], r5.fired[t])
	}
	// (f) monotone in the probability
	mono := append([]M{}, onlyEnabled...)
	e := deepCopyM(onlyEnabled[t]).(M)
	e["applyProbability"] = c.P2
	mono[t] = e
	r6 := c08Decide(withBiases(m, mono))
	if !r6.out.OK {
		return failf("monotone-accepted", "variant with another probability is rejected: %s", r6.out.Err)
	}
	p1 := probOf(onlyEnabled[t])
	lo, hi := base.fired[t], r6.fired[t]
	if c.P2 < p1 {
		lo, hi = hi, lo
	}
	if lo && !hi {
		return failf("firing-monotone-in-probability", "entry %d fires with probability %v but not with %v (same seed and position)", t, math.Min(p1, c.P2), math.Max(p1, c.P2))
	}
	// (g) ... and on nothing else, in particular not on the requests decided before: the full list fires alike after
	// a shorter list with the same seed and after a request with another seed
	if len(onlyEnabled) >= 2 {
		other := deepCopyM(withBiases(m, onlyEnabled)).(M)
		other["biasApplyRandomSeed"] = num(m["biasApplyRandomSeed"]) + 1
		full := withBiases(m, onlyEnabled)
		k := 1 + c.Target%(len(onlyEnabled)-1)
		c08Decide(other)
		c08Decide(withBiases(m, onlyEnabled[:k]))
		rA := c08Decide(full)
		c08Decide(other)
		rB := c08Decide(full)
		if rA.out.OK != rB.out.OK || rA.out.Body != rB.out.Body {
			return failf("firing-independent-of-history", "the same request is answered differently after a request with the first %d of its biases (same seed) and after a request with another seed:\n %s\n %s", k, rA.out.Body, rB.out.Body)
		}
		st.inc("C08:history-variant-checked")
	}
	if len(en) >= 2 && inner {
		st.nontrivial("C08", c.Req)
		st.sample("C08", M{"request": m, "fired": base.fired})
	}
	return nil
}

// ---- (g) frequency over many seeds

type C08FreqCase struct {
	Position int     `json:"position"`
	P        float64 `json:"p"`
	Seed0    int64   `json:"seed0"`
	N        int     `json:"n"`
}

func judgeC08Freq(c C08FreqCase) *Fail {
	var bs []interface{}
	for i := 0; i < c.Position; i++ {
		bs = append(bs, M{"name": probeName, "applyProbability": 0.5})
	}
	bs = append(bs, M{"name": probeName, "applyProbability": c.P})
	req := M{
		"preferenceFunction": "weightedSum",
		"criteria":           []interface{}{M{"id": "c", "type": "gain"}},
		"knownAlternatives":  []interface{}{M{"id": "a", "criteria": M{"c": 1.0}}},
		"choseToMake":        []interface{}{"a"},
		"methodParameters":   M{"weights": M{"c": 1.0}},
		"biases":             bs,
	}
	fires := 0
	for j := 0; j < c.N; j++ {
		req["biasApplyRandomSeed"] = c.Seed0 + int64(j)
		r := c08Decide(req)
		if !r.out.OK {
			return failf("c08-accepted", "valid request rejected: %s", r.out.Err)
		}
		if r.fired[c.Position] {
			fires++
		}
	}
	n := float64(c.N)
	sigma := math.Sqrt(n * c.P * (1 - c.P))
	if d := math.Abs(float64(fires) - n*c.P); d > 6.5*sigma+2 {
		return failf("fires-with-stated-frequency", "position %d probability %v: fired %d times over %d seeds (expected %.1f, tolerance %.1f)", c.Position, c.P, fires, c.N, n*c.P, 6.5*sigma+2)
	}
	st.nontrivial("C08freq", fmt.Sprint(c.Position, c.P, c.Seed0))
	st.add("C08:frequency-decisions", int64(c.N))
	st.sample("C08freq", M{"case": c, "fired": fires})
	return nil
}

func genC08Freq(t *rapid.T) C08FreqCase {
	g := G{t}
	n := 2000
	if envInt("VERIF_CHECKS", 0) > 50000 {
		n = 20000
	}
	return C08FreqCase{Position: g.Int(0, 3), P: g.PickF(0.1, 0.25, 0.5, 0.9, g.Unif(0.02, 0.98)), Seed0: int64(g.Int(0, 1<<40)), N: n}
}

func init() {
	register("C08", "C08", 1, genC08, judgeC08)
	register("C08", "C08freq", 0.002, genC08Freq, judgeC08Freq)
}

func TestC08Rel(t *testing.T)  { runRegistered(t, "C08") }
func TestC08Freq(t *testing.T) { runRegistered(t, "C08freq") }
