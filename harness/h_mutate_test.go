package main_test

// Constraint-level mutation (DESIGN.md §3.3 c): exactly one documented input
// constraint is broken on an otherwise valid request. Every mutant must be
// rejected by the system (C20); C02/C10 use them as "rejected" inputs.

import (
	"strings"

	"pgregory.net/rapid"
)

type mutOp struct {
	name  string
	apply func(g G, req M, v *ReqView) bool // false = not applicable
}

func hasBias(v *ReqView, name string) bool {
	for _, b := range v.Biases {
		if str(b["name"]) == name {
			return true
		}
	}
	return false
}

func firstBias(req M, b M) {
	bs := asL(req["biases"])
	req["biases"] = append([]interface{}{b}, bs...)
}

func validOmission() M {
	return M{"ratio": 0.0, "randomSeed": 1}
}

// wrongName returns a name no registry documents: a fixed unknown one or a near miss of a documented one
// (letter case changed, a blank appended, the last letter dropped).
func wrongName(g G, documented ...string) string {
	d := documented[g.Int(0, len(documented)-1)]
	if d == "" {
		return "noSuchName"
	}
	switch g.Int(0, 5) {
	case 0:
		return strings.ToUpper(d[:1]) + d[1:]
	case 1:
		return strings.ToUpper(d)
	case 2:
		return strings.ToLower(d) + "_" // lower-casing alone may leave an all-lower-case name unchanged
	case 3:
		return d + " "
	case 4:
		return d[:len(d)-1]
	}
	return "noSuchName"
}

// unknownAlternativeId returns an id no known alternative has: a fixed one, a blank-only one, or a near miss of a known id.
func unknownAlternativeId(g G, v *ReqView) string {
	known := map[string]bool{}
	for _, a := range v.Known {
		known[a.Id] = true
	}
	for tries := 0; tries < 8; tries++ {
		x := g.Pick("noSuchAlternative", " ", "\t", "   ", wrongName(g, v.Known[g.Int(0, len(v.Known)-1)].Id))
		if x != "" && !known[x] {
			return x
		}
	}
	return "noSuchAlternative"
}

// padMissing adds, one time in three, an entry for an undeclared id to an object that has just lost the entry
// of a declared one: the number of entries is right again, a declared criterion is still missing.
func padMissing(g G, m M, val interface{}) {
	if m != nil && g.Chance(1, 3) {
		m["zz_undeclared"] = val
	}
}

var mutOps = []mutOp{
	{"unknownMethod", func(g G, req M, v *ReqView) bool {
		req["preferenceFunction"] = g.Pick("noSuchMethod", "WeightedSum", "electre", "owa ", wrongName(g, allMethods...))
		return true
	}},
	{"emptyMethod", func(g G, req M, v *ReqView) bool {
		req["preferenceFunction"] = g.Pick("", "  ")
		return true
	}},
	{"unknownBias", func(g G, req M, v *ReqView) bool {
		b := M{"name": g.Pick("noSuchBias", "Fatigue", "criteriaomission", wrongName(g, allBiases...)), "props": M{}}
		// an enabled entry with an unknown name is rejected whatever else it says (it would never fire with probability 0)
		switch g.Int(0, 4) {
		case 0:
			b["applyProbability"] = 0.0
		case 1:
			b["applyProbability"] = g.PickF(0.5, 1, 1e-9)
		case 2:
			b["disabled"] = false
		}
		bs := asL(req["biases"])
		pos := g.Int(0, len(bs))
		nb := append([]interface{}{}, bs[:pos]...)
		nb = append(nb, b)
		req["biases"] = append(nb, bs[pos:]...)
		return true
	}},
	{"unknownOrdering", func(g G, req M, v *ReqView) bool {
		p := validOmission()
		p["ordering"] = g.Pick("noSuchOrdering", "Weakest", "strongestbyprobability", wrongName(g, orderings...))
		firstBias(req, M{"name": g.Pick("criteriaOmission", "preferenceReversal"), "props": p})
		return true
	}},
	{"ratioOutOfRange", func(g G, req M, v *ReqView) bool {
		p := validOmission()
		p["ratio"] = g.PickF(1.5, -0.1, 1.0000001, -1e-9, 7)
		firstBias(req, M{"name": g.Pick("criteriaOmission", "preferenceReversal"), "props": p})
		return true
	}},
	{"maxBelowMin", func(g G, req M, v *ReqView) bool {
		p := validOmission()
		switch g.Int(0, 4) {
		case 0:
			p["min"], p["max"] = 1, 0
		case 1:
			p["min"], p["max"] = 2, 1
		case 2:
			p["min"], p["max"] = 1, -1
		case 3:
			p["max"] = -1 // min is 0 by default
		default:
			p["min"], p["max"] = 1, -9007199254740992.0
		}
		firstBias(req, M{"name": g.Pick("criteriaOmission", "preferenceReversal"), "props": p})
		return true
	}},
	{"unknownFatigueFunction", func(g G, req M, v *ReqView) bool {
		firstBias(req, M{"name": "fatigue", "props": M{"function": g.Pick("noSuch", "", "Const", wrongName(g, "const", "expFromZero")), "params": M{"value": 0.1}}})
		return true
	}},
	{"zeroBoundingScaling", func(g G, req M, v *ReqView) bool {
		// wherever bounding is configured, and whether or not the bias would change anything
		switch g.Int(0, 4) {
		case 0:
			firstBias(req, M{"name": "fatigue", "props": M{"function": "const", "params": M{"value": 0.1}, "allowedValuesRangeScaling": 0}})
		case 1:
			firstBias(req, M{"name": "fatigue", "props": M{"function": "const", "params": M{"value": 0.0}, "allowedValuesRangeScaling": 0}})
		case 2:
			firstBias(req, M{"name": "fatigue", "props": M{"function": "expFromZero", "params": M{"alpha": 0.1, "multiplier": 1.0, "queryNumber": 0}, "allowedValuesRangeScaling": 0}})
		case 3:
			firstBias(req, M{"name": "criteriaConcealment", "props": M{"randomSeed": 3, "allowedValuesRangeScaling": 0}})
		default:
			firstBias(req, M{"name": "anchoring", "props": M{
				"anchoringAlternatives": []interface{}{M{"alternative": v.Known[0].Id, "coefficient": 1}},
				"loss":                  M{"function": "linear", "params": M{"a": 1, "b": 0}},
				"gain":                  M{"function": "linear", "params": M{"a": 1, "b": 0}},
				"referencePoints":       M{"function": "ideal"},
				"applier":               M{"function": g.Pick("inline", "newCriterion"), "params": M{"allowedValuesRangeScaling": 0}},
			}})
		}
		return true
	}},
	{"mixingRatioOutOfRange", func(g G, req M, v *ReqView) bool {
		if len(v.Criteria) < 2 {
			return false
		}
		firstBias(req, M{"name": "criteriaMixing", "props": M{"mixingRatio": g.PickF(1.5, -0.25, 1.0000001), "randomSeed": 3}})
		return true
	}},
	{"concealmentZeroScaling", func(g G, req M, v *ReqView) bool {
		firstBias(req, M{"name": "criteriaConcealment", "props": M{"newCriterionScaling": 0, "randomSeed": 3}})
		return true
	}},
	{"unknownReferenceCriterionType", func(g G, req M, v *ReqView) bool {
		firstBias(req, M{"name": "criteriaConcealment", "props": M{"referenceCriterionType": g.Pick("noSuchStrategy", wrongName(g, "importanceRatio", "randomUniform", "randomWeighted")), "randomSeed": 3}})
		return true
	}},
	{"anchoringUnknownAlternative", func(g G, req M, v *ReqView) bool {
		firstBias(req, M{"name": "anchoring", "props": M{
			"anchoringAlternatives": []interface{}{M{"alternative": unknownAlternativeId(g, v), "coefficient": 1}},
			"loss":                  M{"function": "linear", "params": M{"a": 1, "b": 0}},
			"gain":                  M{"function": "linear", "params": M{"a": 1, "b": 0}},
			"referencePoints":       M{"function": "ideal"},
			"applier":               M{"function": "inline", "params": M{}},
		}})
		return true
	}},
	{"anchoringUnknownFunction", func(g G, req M, v *ReqView) bool {
		which := g.Pick("loss", "gain", "referencePoints", "applier")
		p := M{
			"anchoringAlternatives": []interface{}{M{"alternative": v.Known[0].Id, "coefficient": 1}},
			"loss":                  M{"function": "linear", "params": M{"a": 1, "b": 0}},
			"gain":                  M{"function": "linear", "params": M{"a": 1, "b": 0}},
			"referencePoints":       M{"function": "ideal"},
			"applier":               M{"function": "inline", "params": M{}},
		}
		p[which].(M)["function"] = g.Pick("noSuchFunction", wrongName(g, str(p[which].(M)["function"])))
		firstBias(req, M{"name": "anchoring", "props": p})
		return true
	}},
	{"anchoringNoAlternatives", func(g G, req M, v *ReqView) bool {
		firstBias(req, M{"name": "anchoring", "props": M{
			"anchoringAlternatives": []interface{}{},
			"loss":                  M{"function": "linear", "params": M{"a": 1, "b": 0}},
			"gain":                  M{"function": "linear", "params": M{"a": 1, "b": 0}},
			"referencePoints":       M{"function": "ideal"},
			"applier":               M{"function": "inline", "params": M{}},
		}})
		return true
	}},
	{"duplicateCriterion", func(g G, req M, v *ReqView) bool {
		cs := asL(req["criteria"])
		i := g.Int(0, len(cs)-1)
		dup := deepCopyM(cs[i]).(M)
		pos := g.Int(0, len(cs))
		nc := append([]interface{}{}, cs[:pos]...)
		nc = append(nc, dup)
		req["criteria"] = append(nc, cs[pos:]...)
		return true
	}},
	{"emptyOrInvertedRange", func(g G, req M, v *ReqView) bool {
		cs := asL(req["criteria"])
		c := cs[g.Int(0, len(cs)-1)].(M)
		if g.Bool() {
			c["valuesRange"] = M{"min": 3.0, "max": 3.0}
		} else {
			c["valuesRange"] = M{"min": 100.0, "max": -100.0}
		}
		return true
	}},
	{"missingCriterionValue", func(g G, req M, v *ReqView) bool {
		as := asL(req["knownAlternatives"])
		a := as[g.Int(0, len(as)-1)].(M)
		cm := a["criteria"].(M)
		delete(cm, v.Criteria[g.Int(0, len(v.Criteria)-1)].Id)
		padMissing(g, cm, 1.0)
		return true
	}},
	{"missingWeight", func(g G, req M, v *ReqView) bool {
		cid := v.Criteria[g.Int(0, len(v.Criteria)-1)].Id
		mp := v.MP
		switch v.Method {
		case "weightedSum", "owa", "majorityHeuristic", "aspectEliminationHeuristic":
			delete(asM(mp["weights"]), cid)
			padMissing(g, asM(mp["weights"]), 1.0)
		case "choquetIntegral":
			w := asM(mp["weights"])
			ks := sortedKeys(w)
			delete(w, ks[g.Int(0, len(ks)-1)])
		case "electreIII":
			delete(asM(mp["electreCriteria"]), cid)
			padMissing(g, asM(mp["electreCriteria"]), M{"k": 1.0})
		case "satisfactionHeuristic":
			// explicit thresholds are validated when the method evaluates: claimed only if no
			// omission can drop the criterion first (a missing threshold is not in the documented list)
			if str(mp["function"]) != "thresholds" || hasBias(v, "criteriaOmission") {
				return false
			}
			ths := asL(asM(mp["params"])["thresholds"])
			lv := ths[g.Int(0, len(ths)-1)].(M)
			delete(lv, cid)
			padMissing(g, lv, 0.5)
		}
		return true
	}},
	{"missingWeightBeforeRandomOmission", func(g G, req M, v *ReqView) bool {
		// the weight of a criterion is missing and a random-order omission may drop that very criterion
		// before the method looks at its weights: still a request with a missing weight
		if len(v.Criteria) < 2 {
			return false
		}
		cid := v.Criteria[g.Int(0, len(v.Criteria)-1)].Id
		switch v.Method {
		case "weightedSum", "owa", "majorityHeuristic", "aspectEliminationHeuristic":
			delete(asM(v.MP["weights"]), cid)
		case "electreIII":
			delete(asM(v.MP["electreCriteria"]), cid)
		default:
			return false
		}
		firstBias(req, M{"name": "criteriaOmission", "props": M{"ratio": 0.0, "min": 1, "max": 1, "ordering": "random", "randomSeed": g.Seed()}})
		return true
	}},
	{"missingThresholdValue", func(g G, req M, v *ReqView) bool {
		if str(v.MP["function"]) != "thresholds" || hasBias(v, "criteriaOmission") {
			return false
		}
		ths := asL(asM(v.MP["params"])["thresholds"])
		lv := ths[g.Int(0, len(ths)-1)].(M)
		delete(lv, v.Criteria[g.Int(0, len(v.Criteria)-1)].Id)
		padMissing(g, lv, 0.5)
		return true
	}},
	{"missingWeightsObject", func(g G, req M, v *ReqView) bool {
		switch v.Method {
		case "weightedSum", "owa", "choquetIntegral":
			delete(v.MP, "weights")
		case "electreIII":
			delete(v.MP, "electreCriteria")
		default:
			return false
		}
		return true
	}},
	{"choquetWeightOutOfRange", func(g G, req M, v *ReqView) bool {
		if v.Method != "choquetIntegral" {
			return false
		}
		w := asM(v.MP["weights"])
		ks := sortedKeys(w)
		w[ks[g.Int(0, len(ks)-1)]] = g.PickF(1.5, -0.1, 1.0000001, -1e-9)
		return true
	}},
	{"choquetCostCriterion", func(g G, req M, v *ReqView) bool {
		if v.Method != "choquetIntegral" {
			return false
		}
		cs := asL(req["criteria"])
		cs[g.Int(0, len(cs)-1)].(M)["type"] = "cost"
		return true
	}},
	{"electreNonPositiveWeight", func(g G, req M, v *ReqView) bool {
		if v.Method != "electreIII" {
			return false
		}
		ec := asM(v.MP["electreCriteria"])
		asM(ec[v.Criteria[g.Int(0, len(v.Criteria)-1)].Id])["k"] = g.PickF(0, -1, -0.001)
		return true
	}},
	{"electreNonIncreasingThresholds", func(g G, req M, v *ReqView) bool {
		if v.Method != "electreIII" {
			return false
		}
		ec := asM(v.MP["electreCriteria"])
		e := asM(ec[v.Criteria[g.Int(0, len(v.Criteria)-1)].Id])
		switch g.Int(0, 6) {
		case 4: // no preference threshold (absent, or the all-zero function that means absent), veto not above q
			e["q"], e["v"] = M{"b": 2.0}, M{"b": g.PickF(1, 2)}
			delete(e, "p")
		case 5:
			e["q"], e["p"], e["v"] = M{"b": 2.0}, M{"a": 0.0, "b": 0.0}, M{"b": g.PickF(1, 2)}
		case 6:
			e["q"], e["p"], e["v"] = M{"b": 1.0}, M{"b": 3.0}, M{"b": g.PickF(2, 3)}
		case 0:
			e["q"], e["p"] = M{"b": 2.0}, M{"b": 1.0}
			delete(e, "v")
		case 1:
			e["q"], e["p"] = M{"b": 2.0}, M{"b": 2.0}
			delete(e, "v")
		case 2:
			delete(e, "q")
			e["p"], e["v"] = M{"b": 3.0}, M{"b": 3.0}
		default:
			e["q"] = M{"b": -1.0}
		}
		return true
	}},
	{"seriesCoefficientOutOfRange", func(g G, req M, v *ReqView) bool {
		f := str(v.MP["function"])
		if !strings.HasPrefix(f, "ideal") {
			return false
		}
		p := asM(v.MP["params"])
		inc := v.Method == "aspectEliminationHeuristic"
		switch g.Int(0, 2) {
		case 0:
			p["coefficient"] = g.PickF(0, 1, -0.5, 1.5)
		case 1:
			if inc {
				p["minValue"] = g.PickF(-0.1, 1.5)
			} else {
				p["minValue"] = g.PickF(0, -0.1, 1.5)
			}
		default:
			if inc {
				p["maxValue"] = g.PickF(-0.1, 1.5)
			} else {
				p["maxValue"] = g.PickF(0, -0.1, 1.5)
			}
		}
		return true
	}},
	{"unknownLevelsFunction", func(g G, req M, v *ReqView) bool {
		if v.Method != "aspectEliminationHeuristic" && v.Method != "satisfactionHeuristic" {
			return false
		}
		if v.Method == "aspectEliminationHeuristic" {
			v.MP["function"] = g.Pick("noSuchFunction", "", "idealSubtractiveCoefficient", wrongName(g, str(v.MP["function"])))
		} else {
			v.MP["function"] = g.Pick("noSuchFunction", "", "idealAdditiveCoefficient", wrongName(g, str(v.MP["function"])))
		}
		return true
	}},
	{"unknownDrawResolution", func(g G, req M, v *ReqView) bool {
		if v.Method != "majorityHeuristic" {
			return false
		}
		v.MP["drawResolution"] = g.Pick("noSuchPolicy", "Allow", wrongName(g, "allow", "current", "newer", "random"))
		return true
	}},
	{"unknownChosenAlternative", func(g G, req M, v *ReqView) bool {
		ch := asL(req["choseToMake"])
		pos := g.Int(0, len(ch))
		nc := append([]interface{}{}, ch[:pos]...)
		nc = append(nc, unknownAlternativeId(g, v))
		req["choseToMake"] = append(nc, ch[pos:]...)
		return true
	}},
	{"unknownCurrentChoice", func(g G, req M, v *ReqView) bool {
		if v.Method != "majorityHeuristic" && v.Method != "satisfactionHeuristic" {
			return false
		}
		v.MP["currentChoice"] = unknownAlternativeId(g, v)
		return true
	}},
}

// mutateConstraint returns a copy of the request with one constraint broken.
func mutateConstraint(t *rapid.T, gr GenReq) GenReq {
	g := G{t}
	for tries := 0; tries < 50; tries++ {
		op := mutOps[g.Int(0, len(mutOps)-1)]
		req := deepCopyM(gr.Req).(M)
		// JSON round trip so that all containers are M / []interface{}
		req = parseReqM(mustJSON(req))
		v := viewReq(req)
		nBefore := len(asL(req["biases"]))
		if op.apply(g, req, v) {
			// an operator that puts an offending bias in front: half of the time the offender goes to the END of the
			// list instead, behind biases that have already changed the working data (never behind an omission, which
			// could leave a state in which the offending bias has nothing to do and so nothing to check)
			if bs := asL(req["biases"]); len(bs) == nBefore+1 && nBefore > 0 && op.name != "missingWeightBeforeRandomOmission" && g.Bool() {
				movable := true
				for _, b := range bs[1:] {
					bm := asM(b)
					if str(bm["name"]) == "criteriaOmission" || bm["applyProbability"] != nil || bm["disabled"] != nil {
						movable = false
					}
				}
				if movable {
					req["biases"] = append(append([]interface{}{}, bs[1:]...), bs[0])
				}
			}
			labels := append(append([]string{}, gr.Labels...), "mutant="+op.name)
			return GenReq{Req: req, Labels: labels}
		}
	}
	req := parseReqM(mustJSON(gr.Req))
	req["preferenceFunction"] = "noSuchMethod"
	return GenReq{Req: req, Labels: append(append([]string{}, gr.Labels...), "mutant=unknownMethod")}
}

func mutantOf(labels []string) string {
	for _, l := range labels {
		if strings.HasPrefix(l, "mutant=") {
			return l[len("mutant="):]
		}
	}
	return ""
}
