package main_test

// C20 — the HTTP service answers every request and survives it.

import (
	"encoding/json"
	"fmt"
	"github.com/Azbesciak/RealDecisionMaker/lib/model"
	"os"
	"path/filepath"
	"reflect"
	"sort"
	"strings"
	"sync"
	"testing"
	"time"

	"pgregory.net/rapid"
)

type C20Case struct {
	Kind   string `json:"kind"` // valid | constraint | type | bytes
	Body   string `json:"body"`
	Mutant string `json:"mutant,omitempty"`
}

var registeredMethods = []string{"weightedSum", "owa", "electreIII", "choquetIntegral", "aspectEliminationHeuristic", "majorityHeuristic", "satisfactionHeuristic"}
var registeredBiases = []string{"anchoring", "criteriaConcealment", "criteriaMixing", "preferenceReversal", "criteriaOmission", "fatigue"}

const knownGood = `{"preferenceFunction":"weightedSum","criteria":[{"id":"c","type":"gain"},{"id":"d","type":"cost"}],"knownAlternatives":[{"id":"x","criteria":{"c":1,"d":2}},{"id":"y","criteria":{"c":3,"d":1}}],"choseToMake":["x","y"],"methodParameters":{"weights":{"c":1,"d":1}}}`

// judgeHTTP checks one exchange against the documented response shapes.
func judgeHTTP(c C20Case, resp HTTPResp) *Fail {
	var obj map[string]json.RawMessage
	switch resp.Code {
	case 200:
		if err := json.Unmarshal([]byte(resp.Body), &obj); err != nil {
			return failf("200-has-result-and-biases", "status 200 but the body is not a JSON object: %s", resp.Body)
		}
		var res, bs []json.RawMessage
		if json.Unmarshal(obj["result"], &res) != nil || json.Unmarshal(obj["biases"], &bs) != nil || res == nil || bs == nil {
			return failf("200-has-result-and-biases", "status 200 but `result` / `biases` are not arrays: %s", resp.Body)
		}
		if c.Kind == "constraint" {
			return failf("constraint-violation-rejected", "the request violates a documented constraint (%s) but is answered with a ranking: %s", c.Mutant, resp.Body)
		}
		if c.Kind == "valid" {
			if lib := decide([]byte(c.Body)); !lib.OK || lib.Body != resp.Body {
				return failf("handler-equals-library", "the HTTP answer differs from the library's answer for the same body:\n http    %s\n library %s %s", resp.Body, lib.Body, lib.Err)
			}
			var f *Fail
			func() {
				defer func() {
					if e := recover(); e != nil {
						f = failf("harness-view", "%v", e)
					}
				}()
				f = wellFormedRanking(viewReq(parseReqM([]byte(c.Body))), parseResp(resp.Body))
			}()
			if f != nil {
				return f
			}
		}
	case 400:
		if err := json.Unmarshal([]byte(resp.Body), &obj); err != nil {
			return failf("400-has-error-and-request", "status 400 but the body is not a JSON object: %s", resp.Body)
		}
		e, hasE := obj["error"]
		_, hasR := obj["request"]
		es := strings.TrimSpace(string(e))
		if !hasE || !hasR || es == "" || es == "null" || es == `""` {
			return failf("400-has-error-and-request", "status 400 without a non-empty `error` and an echoed `request`: %s", resp.Body)
		}
		if c.Kind == "valid" || c.Kind == "constraint" {
			// "the echoed request": what the service decoded from the body, as it was before deciding
			var sent model.DecisionMaker
			if json.Unmarshal([]byte(c.Body), &sent) == nil {
				if want := mustJSON(sent); !jsonEqual(want, obj["request"]) {
					return failf("400-echoes-the-request", "the echoed request is not the request that was sent:\n sent   %s\n echoed %s", want, obj["request"])
				}
				st.inc("C20:echo-compared")
			}
		}
		if c.Kind == "valid" && !(strings.Contains(es, "unsupported value") && overflowExcused([]byte(c.Body))) {
			return failf("valid-request-answered-200", "a valid request is rejected: %s", es)
		}
		if c.Kind == "valid" {
			st.inc("C20:valid-nonfinite-result")
		}
		switch c.Mutant {
		case "unknownMethod":
			for _, n := range registeredMethods {
				if !strings.Contains(es, n) {
					return failf("unknown-method-lists-available", "the error for an unknown method does not list %q: %s", n, es)
				}
			}
		case "unknownBias":
			for _, n := range registeredBiases {
				if !strings.Contains(es, n) {
					return failf("unknown-bias-lists-available", "the error for an unknown bias does not list %q: %s", n, es)
				}
			}
		}
	default:
		return failf("status-200-or-400", "status %d: %s", resp.Code, resp.Body)
	}
	return nil
}

// overflowExcused: the same request, probed at library level, shows that the documented exponential anchoring
// formula is itself not a finite float64 for the state it is applied to (numeric domain rule, DESIGN.md §10).
func overflowExcused(body []byte) (ok bool) {
	defer func() {
		if recover() != nil {
			ok = false
		}
	}()
	m := parseReqM(body)
	var bs []interface{}
	bs = append(bs, M{"name": probeName})
	for _, b := range asL(m["biases"]) {
		bs = append(bs, b, M{"name": probeName})
	}
	pm := deepCopyM(m).(M)
	pm["biases"] = bs
	pb := mustJSON(pm)
	_, rec := decideProbed(pb, false, false)
	return expOverflowExpected(viewReq(parseReqM(pb)), rec)
}

func c20Stats(c C20Case, resp HTTPResp, name string) {
	st.inc(fmt.Sprintf("C20:%s:%s:%d", name, c.Kind, resp.Code))
	reaches := false
	if c.Kind == "valid" || c.Kind == "constraint" {
		reaches = true
	} else if resp.Code == 200 || (resp.Code == 400 && !strings.Contains(resp.Body, "cannot unmarshal") && !strings.Contains(resp.Body, "invalid character") && !strings.Contains(resp.Body, "unexpected end")) {
		reaches = true
	}
	if reaches {
		st.nontrivial(name, c.Kind+"|"+c.Mutant+"|"+c.Body)
		st.sample(name+":"+c.Kind, c)
	}
}

// in-process with a watchdog: a request that does not return within 30 s "stopped answering".
func judgeC20(c C20Case) *Fail {
	done := make(chan HTTPResp, 1)
	go func() { done <- handleInProcess([]byte(c.Body)) }()
	var resp HTTPResp
	select {
	case resp = <-done:
	case <-time.After(30 * time.Second):
		return failf("answers-within-30s", "the handler did not answer a %d-byte request within 30 s", len(c.Body))
	}
	if f := judgeHTTP(c, resp); f != nil {
		return f
	}
	c20Stats(c, resp, "C20")
	return nil
}

// ---- generators

var hostileBodies = []string{
	``, ` `, `{`, `}`, `[]`, `null`, `true`, `0`, `"x"`, `{}`, `{"preferenceFunction":5}`, `{"preferenceFunction":null}`,
	`{"preferenceFunction":"weightedSum"}`, `{"preferenceFunction":"weightedSum","criteria":null,"knownAlternatives":null,"choseToMake":null}`,
	`{"preferenceFunction":"weightedSum","criteria":[],"knownAlternatives":[],"choseToMake":[],"methodParameters":{"weights":{}}}`,
	`{"preferenceFunction":"weightedSum","biasApplyRandomSeed":1e19}`, `{"preferenceFunction":"weightedSum","biasApplyRandomSeed":1.5}`,
	`{"a":NaN}`, `{"a":1e999}`, `{"preferenceFunction":"owa","preferenceFunction":"weightedSum"}`, "\xef\xbb\xbf{}", `{"criteria":[{"id":"a","valuesRange":{"min":"x"}}]}`,
	`{"preferenceFunction":"weightedSum","criteria":[{"id":"c"}],"knownAlternatives":[{"id":"x","criteria":{"c":1e308}},{"id":"y","criteria":{"c":-1e308}}],"choseToMake":["x","y"],"methodParameters":{"weights":{"c":1e308}}}`,
	`{"preferenceFunction":"electreIII","criteria":[{"id":"c","type":"gain"}],"knownAlternatives":[{"id":"x","criteria":{"c":1}},{"id":"y","criteria":{"c":2}},{"id":"z","criteria":{"c":2}}],"choseToMake":["x","y","z"],"methodParameters":{"electreCriteria":{"c":{"k":1}},"electreDistillation":{"a":-0.2,"b":0.1}}}`,
	`{"preferenceFunction":"electreIII","criteria":[{"id":"c","type":"gain"}],"knownAlternatives":[{"id":"x","criteria":{"c":1}},{"id":"y","criteria":{"c":2}},{"id":"z","criteria":{"c":2}}],"choseToMake":["x","y","z"],"methodParameters":{"electreCriteria":{"c":{"k":1}},"electreDistillation":{"a":1,"b":-0.5}}}`,
	`{"preferenceFunction":"weightedSum","criteria":[{"id":"c"}],"knownAlternatives":[{"id":"x","criteria":{"c":1}}],"choseToMake":["x","x"],"methodParameters":{"weights":{"c":1}}}`,
	`{"preferenceFunction":"weightedSum","criteria":[{"id":"c"}],"knownAlternatives":[{"id":"x","criteria":{"c":1}},{"id":"x","criteria":{"c":2}}],"choseToMake":["x"],"methodParameters":{"weights":{"c":1}}}`,
	`{"preferenceFunction":"weightedSum","criteria":[{"id":"c"}],"knownAlternatives":[{"id":"x","criteria":{"c":1}}],"choseToMake":["x"],"methodParameters":{"weights":{"c":1}},"biases":[5]}`,
	`{"preferenceFunction":"weightedSum","criteria":[{"id":"c"}],"knownAlternatives":[{"id":"x","criteria":{"c":1}}],"choseToMake":["x"],"methodParameters":{"weights":{"c":1}},"biases":[{"name":"fatigue","props":{"function":"expFromZero","params":{"alpha":10,"multiplier":10,"queryNumber":1000}}}]}`,
}

type jsonPath struct {
	parent interface{}
	key    string
	idx    int
}

func collectPaths(v interface{}, out *[]jsonPath, depth int) {
	if depth > 8 {
		return
	}
	switch x := v.(type) {
	case M:
		for _, k := range sortedKeys(x) {
			*out = append(*out, jsonPath{parent: x, key: k})
			collectPaths(x[k], out, depth+1)
		}
	case []interface{}:
		for i := range x {
			*out = append(*out, jsonPath{parent: x, idx: i})
			collectPaths(x[i], out, depth+1)
		}
	}
}

// typeMutate replaces / drops / duplicates one subtree of a valid request.
func typeMutate(g G, req M) (M, string) {
	m := parseReqM(mustJSON(req))
	var plain interface{}
	json.Unmarshal(mustJSON(m), &plain)
	root := plain.(M)
	var paths []jsonPath
	collectPaths(root, &paths, 0)
	if len(paths) == 0 {
		return root, "none"
	}
	p := paths[g.Int(0, len(paths)-1)]
	repl := []interface{}{nil, true, 0.0, -1.0, 1.0, 1e308, -1e308, 0.5, 3.0, 1e19, -0.0, "", "str", "1", []interface{}{}, M{}, []interface{}{[]interface{}{}}, M{"a": M{"b": M{}}}, []interface{}{1.0, "x", nil}}
	op := g.Int(0, 9)
	if pm, ok := p.parent.(M); ok {
		// never turn a series coefficient into a tiny positive number (resource exhaustion is out of scope, DESIGN §8)
		switch {
		case op == 0:
			delete(pm, p.key)
			return root, "drop:" + p.key
		case op == 1:
			pm[p.key+"2"] = pm[p.key]
			return root, "extra-key:" + p.key
		default:
			r := repl[g.Int(0, len(repl)-1)]
			pm[p.key] = r
			return root, fmt.Sprintf("replace:%s", p.key)
		}
	}
	arr := p.parent.([]interface{})
	switch {
	case op <= 1:
		arr[p.idx] = arr[g.Int(0, len(arr)-1)] // duplicate an element (duplicate ids)
		return root, "dup-element"
	default:
		arr[p.idx] = repl[g.Int(0, len(repl)-1)]
		return root, "replace-element"
	}
}

func byteMutate(g G, body []byte) []byte {
	if len(body) == 0 {
		return body
	}
	b := append([]byte{}, body...)
	switch g.Int(0, 5) {
	case 0:
		return b[:g.Int(0, len(b)-1)]
	case 1:
		b[g.Int(0, len(b)-1)] = byte(g.Int(0, 255))
		return b
	case 2:
		pos := g.Int(0, len(b))
		junk := []string{"{", "}", "[", "]", ",", ":", "\"", "null", "1e999", "-", "\x00", "\\u0000", "9999999999999999999999"}
		return append(append(append([]byte{}, b[:pos]...), junk[g.Int(0, len(junk)-1)]...), b[pos:]...)
	case 3:
		n := g.Int(1, 3000)
		return []byte(strings.Repeat("[", n) + strings.Repeat("]", g.Int(0, n)))
	case 4:
		n := g.Int(1, 2000)
		return []byte(strings.Repeat(`{"a":`, n) + "1" + strings.Repeat("}", n))
	default:
		i, j := g.Int(0, len(b)-1), g.Int(0, len(b)-1)
		b[i], b[j] = b[j], b[i]
		return b
	}
}

// choquetManyCriteria: a small, well-formed body with an extreme field - a Choquet request that declares 20 to 70
// criteria and carries weights for the single criteria only (2^n - 1 are required). It must be answered (400), and
// answering it must not take the memory of 2^n subsets.
func choquetManyCriteria(g G) string {
	n := []int{20, 24, 27, 30, 33, 40, 50, 62, 63, 64, 70}[g.Int(0, 10)]
	crit := make([]interface{}, n)
	vals, w := M{}, M{}
	for i := 0; i < n; i++ {
		id := fmt.Sprintf("c%d", i+1)
		crit[i] = M{"id": id, "type": "gain"}
		vals[id] = float64(i % 3)
		w[id] = 0.5
	}
	if g.Bool() {
		w = M{}
	}
	return string(mustJSON(M{"preferenceFunction": "choquetIntegral", "criteria": crit,
		"knownAlternatives": []interface{}{M{"id": "a1", "criteria": vals}}, "choseToMake": []interface{}{"a1"},
		"methodParameters": M{"weights": w}}))
}

func genC20(t *rapid.T) C20Case {
	g := G{t}
	o := GenOpts{MaxBiases: 3, ValueMode: -1, MaxAlts: 6, MaxCrit: 5, AllowProb: g.Chance(1, 4), AllowDisable: g.Chance(1, 4), Superfluous: true, BiasLikeIds: true}
	switch g.Int(0, 9) {
	case 0, 1:
		req := genRequest(t, GenOpts{MaxBiases: 3, ValueMode: -1, MaxAlts: 6}).Req
		if g.Chance(1, 3) && len(asL(req["biases"])) == 0 {
			delete(req, "biases") // optional top-level keys may be left out
		}
		if g.Chance(1, 4) {
			delete(req, "biasApplyRandomSeed")
		}
		return C20Case{Kind: "valid", Body: string(mustJSON(req))}
	case 2, 3, 4:
		gr := mutateConstraint(t, genRequest(t, GenOpts{MaxBiases: 2, ValueMode: -1, MaxAlts: 6}))
		return C20Case{Kind: "constraint", Body: string(mustJSON(gr.Req)), Mutant: mutantOf(gr.Labels)}
	case 5, 6, 7:
		m, what := typeMutate(g, genRequest(t, o).Req)
		if g.Chance(1, 4) {
			m, _ = typeMutate(g, m)
		}
		return C20Case{Kind: "type", Body: string(mustJSON(m)), Mutant: what}
	case 8:
		if g.Chance(1, 3) {
			return C20Case{Kind: "bytes", Body: choquetManyCriteria(g), Mutant: "choquetManyCriteria"}
		}
		return C20Case{Kind: "bytes", Body: hostileBodies[g.Int(0, len(hostileBodies)-1)]}
	default:
		return C20Case{Kind: "bytes", Body: string(byteMutate(g, mustJSON(genRequest(t, o).Req)))}
	}
}

// ---- the real server process

var c20Mu sync.Mutex
var c20Count int
var knownGoodAnswer string

func judgeC20Server(c C20Case) *Fail {
	c20Mu.Lock()
	defer c20Mu.Unlock()
	if err := theServer.ensure(); err != nil {
		return failf("harness-server", "cannot start the server: %v", err)
	}
	if knownGoodAnswer == "" {
		r, err := theServer.post([]byte(knownGood))
		if err != nil || r.Code != 200 {
			return failf("harness-server", "known-good request not answered: %v %v", r, err)
		}
		knownGoodAnswer = r.Body
	}
	resp, err := theServer.post([]byte(c.Body))
	if err != nil {
		alive := theServer.alive()
		theServer.stop() // restarted by the next case so that shrinking continues
		if !alive {
			return failf("process-survives", "the server process exited while handling the request (%v)", err)
		}
		return failf("every-post-gets-a-response", "no response within 30 s / connection failed: %v", err)
	}
	if f := judgeHTTP(c, resp); f != nil {
		return f
	}
	if !theServer.alive() {
		theServer.stop()
		return failf("process-survives", "the server process exited after answering the request")
	}
	c20Count++
	if c20Count%50 == 0 {
		r, err := theServer.post([]byte(knownGood))
		if err != nil || r.Code != 200 || r.Body != knownGoodAnswer {
			theServer.stop()
			return failf("still-answers-known-good", "after this request the known-good request is answered with %v %v (expected %s)", r, err, knownGoodAnswer)
		}
		st.inc("C20:known-good-rechecked")
	}
	c20Stats(c, resp, "C20server")
	return nil
}

// ---- GET /api/preferenceFunctions

func judgeFunctions(resp HTTPResp) *Fail {
	if resp.Code != 200 {
		return failf("functions-200", "GET /api/preferenceFunctions answered %d", resp.Code)
	}
	var obj map[string]json.RawMessage
	if err := json.Unmarshal([]byte(resp.Body), &obj); err != nil {
		return failf("functions-object", "body is not a JSON object: %v", err)
	}
	for _, n := range registeredMethods {
		var schema map[string]json.RawMessage
		if raw, ok := obj[n]; !ok || json.Unmarshal(raw, &schema) != nil || schema == nil {
			return failf("functions-schema-per-method", "no parameter schema object for method %q", n)
		}
		// the schema is self-contained: every local reference resolves inside it
		var defs map[string]json.RawMessage
		_ = json.Unmarshal(schema["definitions"], &defs)
		for _, ref := range localRefs(obj[n]) {
			name := strings.TrimPrefix(ref, "#/definitions/")
			if name == ref {
				continue
			}
			if _, ok := defs[name]; !ok {
				return failf("functions-schema-per-method", "the schema of %q refers to %s, which it does not define", n, ref)
			}
		}
	}
	return nil
}

// jsonEqual compares two JSON texts as values (key order and number formatting do not matter).
func jsonEqual(a, b []byte) bool {
	var x, y interface{}
	if json.Unmarshal(a, &x) != nil || json.Unmarshal(b, &y) != nil {
		return false
	}
	return reflect.DeepEqual(x, y)
}

// localRefs lists the "$ref" strings anywhere inside a JSON value.
func localRefs(raw json.RawMessage) []string {
	var v interface{}
	if json.Unmarshal(raw, &v) != nil {
		return nil
	}
	var out []string
	var walk func(x interface{})
	walk = func(x interface{}) {
		switch t := x.(type) {
		case map[string]interface{}:
			for k, e := range t {
				if s, ok := e.(string); ok && k == "$ref" {
					out = append(out, s)
				}
				walk(e)
			}
		case []interface{}:
			for _, e := range t {
				walk(e)
			}
		}
	}
	walk(v)
	sort.Strings(out)
	return out
}

type C20FnCase struct {
	Server bool `json:"server"`
}

func judgeC20Fn(c C20FnCase) *Fail {
	if c.Server {
		if os.Getenv("VERIF_SERVER_BIN") == "" {
			return nil
		}
		if err := theServer.ensure(); err != nil {
			return failf("harness-server", "cannot start the server: %v", err)
		}
		r, err := theServer.get("/api/preferenceFunctions")
		if err != nil {
			return failf("functions-200", "no response: %v", err)
		}
		return judgeFunctions(r)
	}
	return judgeFunctions(functionsInProcess())
}

func init() {
	curCaseChecks["C20"] = true
	register("C20", "C20", 1, genC20, judgeC20)
	register("C20", "C20server", 0.1, genC20, judgeC20Server)
	register("C20", "C20fn", 0.0005, func(t *rapid.T) C20FnCase { return C20FnCase{Server: rapid.Bool().Draw(t, "server")} }, judgeC20Fn)
}

func TestC20(t *testing.T) { runRegistered(t, "C20") }

// FuzzC20Bytes: native coverage-guided fuzzing of the in-process handler on raw bytes (thorough tier).
func FuzzC20Bytes(f *testing.F) {
	for _, b := range hostileBodies {
		f.Add([]byte(b))
	}
	f.Add([]byte(knownGood))
	if files, err := filepath.Glob("/repo/httpClient/examples/*/request.json"); err == nil {
		for _, fn := range files {
			if b, err := os.ReadFile(fn); err == nil {
				f.Add(b)
			}
		}
	}
	f.Fuzz(func(t *testing.T, body []byte) {
		if len(body) > 1<<16 {
			return
		}
		// keep the explored problems small (resource exhaustion by size is out of scope)
		if strings.Count(string(body), `"id"`) > 16 || strings.Contains(string(body), "oefficient") {
			return
		}
		c := C20Case{Kind: "bytes", Body: string(body)}
		st.inc("evaluations:C20fuzz")
		writeCurCase("C20", "C20", c)
		if fl := judgeC20(c); fl != nil {
			writeReplay("C20", "C20", c, fl)
			t.Fatalf("VIOLATION-CANDIDATE property=C20 check=C20 rule=%s: %s", fl.Rule, fl.Detail)
		}
	})
}
func TestC20Server(t *testing.T) { runRegistered(t, "C20server") }
func TestC20Fn(t *testing.T)     { runRegistered(t, "C20fn") }
