package main_test

// C18 — concealed and mixed criteria are well-formed additions.

import (
	"fmt"
	"math"
	"testing"

	"github.com/Azbesciak/RealDecisionMaker/lib/model"
	"github.com/Azbesciak/RealDecisionMaker/lib/utils"
	"pgregory.net/rapid"
)

// weightOf: the weight the method attaches to criterion id in the state before the step
// (request weights for declared criteria, reported additions for added ones).
func weightsBefore(x *stepCtx) (map[string]float64, bool) {
	var key string
	switch x.v.Method {
	case "weightedSum", "owa", "majorityHeuristic", "aspectEliminationHeuristic":
		key = "weights"
	case "electreIII":
		key = "k"
	default:
		return nil, false
	}
	w := map[string]float64{}
	if key == "weights" {
		for id, val := range numMap(x.v.MP["weights"]) {
			w[id] = val
		}
	} else {
		for id, e := range asM(x.v.MP["electreCriteria"]) {
			w[id] = num(asM(e)["k"])
		}
	}
	for _, a := range addedCriteria(x.r) {
		if nw, ok := addedWeight(x.v.Method, a); ok {
			w[a.Id] = nw
		}
	}
	return w, true
}

func addedWeight(method string, a AddedCrit) (float64, bool) {
	if a.Params == nil {
		return 0, false
	}
	if method == "electreIII" {
		e := asM(asM(a.Params["criteria"])[a.Id])
		if e == nil {
			return 0, false
		}
		return num(e["k"]), true
	}
	wm := numMap(a.Params["weights"])
	val, ok := wm[a.Id]
	return val, ok
}

// expectedImportanceRef: the criterion the importanceRatio strategy (the default) picks from a ranking in
// ascending importance: the first whose cumulated importance reaches newCriterionImportance x total, else the last.
// ambiguous when a cumulated sum is within 1e-9 (relative) of the target without being equal.
func expectedImportanceRef(s *Snap, params M) (id string, applicable bool, ambiguous bool) {
	typ := str(params["referenceCriterionType"])
	if typ != "" && typ != "importanceRatio" {
		return "", false, false
	}
	if s.ImpErr != "" || len(s.ImpOrder) == 0 {
		return "", false, false
	}
	imp := 0.0
	if x, ok := params["newCriterionImportance"]; ok {
		imp = num(x)
	}
	total := 0.0
	for _, c := range s.ImpOrder {
		total += s.Imp[c]
	}
	target := imp * total
	cum := 0.0
	for _, c := range s.ImpOrder {
		cum += s.Imp[c]
		if d := math.Abs(cum - target); d != 0 && d <= 1e-9*math.Max(1, math.Abs(target)) {
			ambiguous = true
		}
		if cum >= target {
			return c, true, ambiguous
		}
	}
	return s.ImpOrder[len(s.ImpOrder)-1], true, ambiguous
}

func between(x, a, b float64) bool {
	lo, hi := math.Min(a, b), math.Max(a, b)
	s := 1e-9 * math.Max(math.Abs(lo), math.Abs(hi))
	return x >= lo-s && x <= hi+s
}

// fractionOf: nw = u * wref with u in [0,1)
func fractionOf(nw, wref float64) bool {
	if wref == 0 {
		return nw == 0
	}
	u := nw / wref
	return u >= 0 && u < 1
}

func scaledAbout(lo, hi, scaling float64) (float64, float64) {
	half := (hi - lo) / 2
	return lo + half - half*scaling, hi - half + half*scaling
}

func wellFormedAddition(x *stepCtx, added []AddedCrit) (*AddedCrit, *Fail) {
	if len(added) != 1 {
		return nil, failf("exactly-one-new-criterion", "%s reports %d added criteria", x.name, len(added))
	}
	a := &added[0]
	bef, aft := setOf(x.before.critIds()), x.after.critIds()
	if bef[a.Id] {
		return nil, failf("new-id-unused", "new criterion id %q is already used in %v", a.Id, x.before.critIds())
	}
	if len(aft) != len(x.before.Crit)+1 || aft[len(aft)-1] != a.Id {
		return nil, failf("appended-one-criterion", "criteria %v became %v, expected %q appended", x.before.critIds(), aft, a.Id)
	}
	for i, cv := range x.before.Crit {
		if fmt.Sprint(cv) != fmt.Sprint(x.after.Crit[i]) {
			return nil, failf("existing-criteria-unchanged", "criterion %v became %v", cv, x.after.Crit[i])
		}
	}
	if a.Cost || x.after.crit(a.Id).Cost {
		return nil, failf("new-criterion-is-gain", "new criterion %q is not a gain criterion", a.Id)
	}
	for _, alt := range x.before.all() {
		na := x.after.alt(alt.Id)
		nv, has := na.Vals[a.Id]
		if !has {
			return nil, failf("every-alternative-gets-a-value", "alternative %s has no value for %q", alt.Id, a.Id)
		}
		if rv, ok := a.Values[alt.Id]; !ok || rv != nv {
			return nil, failf("report-values", "alternative %s: reported %v (present=%v), handed on %v", alt.Id, rv, ok, nv)
		}
		for id, old := range alt.Vals {
			if na.Vals[id] != old {
				return nil, failf("existing-values-untouched", "(%s,%s) changed from %v to %v", alt.Id, id, old, na.Vals[id])
			}
		}
	}
	if x.after.EvalErr != "" {
		return nil, failf("parameters-extended", "the method cannot evaluate the state with the new criterion: %s", x.after.EvalErr)
	}
	return a, nil
}

func judgeC18(c ReqCase) *Fail {
	x, f := lastStep([]byte(c.Req), true)
	if f != nil {
		return f
	}
	if skipOverflow(x) {
		return nil
	}
	if !x.out.OK {
		return failf("addition-accepted", "%s with biases %v is rejected: %s", x.v.Method, prefixNames(x.v), x.out.Err)
	}
	var mine []AddedCrit
	for _, a := range addedCriteria(x.r) {
		if a.Bias == 2*x.idx+1 {
			mine = append(mine, a)
		}
	}
	if x.name == "criteriaMixing" && len(x.before.Crit) < 2 {
		st.inc("C18:mixing-single-criterion")
		if !x.rep.propsNull() || x.before.ParamsFP != x.after.ParamsFP || fmt.Sprint(x.before.Crit, x.before.all()) != fmt.Sprint(x.after.Crit, x.after.all()) {
			return failf("mixing-needs-two-criteria", "fewer than two criteria exist but mixing changed the state or reported %s", x.rep.Props)
		}
		return nil
	}
	a, f := wellFormedAddition(x, mine)
	if f != nil {
		return f
	}
	// weight-based methods: the new weight is a fraction in [0,1) of an existing criterion's weight
	w, weighted := weightsBefore(x)
	var refs []string
	if weighted {
		nw, ok := addedWeight(x.v.Method, *a)
		if !ok {
			return failf("new-weight-reported", "the report carries no weight for %q: %v", a.Id, a.Params)
		}
		cands := map[string]bool{}
		for _, id := range x.first.critIds() {
			cands[id] = true
		}
		for _, id := range x.before.critIds() {
			cands[id] = true
		}
		for _, id := range sortedKeys(cands) {
			if wr, has := w[id]; has && fractionOf(nw, wr) {
				refs = append(refs, id)
			}
		}
		if len(refs) == 0 {
			return failf("new-weight-fraction-of-reference", "new weight %v of %q is not a fraction in [0,1) of any existing criterion's weight %v", nw, a.Id, w)
		}
	}
	props := x.props
	// the reference criterion is chosen by the configured strategy: for importanceRatio (the default) it is determined
	// by the ranking (concealment ranks the original state, mixing the state it receives)
	rankState := x.before
	if x.name == "criteriaConcealment" {
		rankState = x.first
	}
	if want, ok, amb := expectedImportanceRef(rankState, props); ok && !amb {
		// ties in importance make the ranking order itself the listener's choice: compare importances, not ids
		st.inc("C18:importance-ratio-reference-checked")
		if weighted {
			match := false
			for _, id := range refs {
				if rankState.Imp[id] == rankState.Imp[want] {
					match = true
				}
			}
			if !match {
				return failf("reference-chosen-by-strategy", "importanceRatio (newCriterionImportance=%v) picks %s from the ranking %v %v, but the new weight is not a fraction of a criterion of that importance (candidates %v)", props["newCriterionImportance"], want, rankState.ImpOrder, rankState.Imp, refs)
			}
			var keep []string
			for _, id := range refs {
				if rankState.Imp[id] == rankState.Imp[want] {
					keep = append(keep, id)
				}
			}
			refs = keep
		}
	}
	switch x.name {
	case "criteriaConcealment":
		scaling := 1.0
		if s, ok := props["newCriterionScaling"]; ok {
			scaling = num(s)
		}
		if !a.HasRng {
			return failf("report-range", "no valuesRange reported for %q", a.Id)
		}
		// some existing criterion explains the reported range: its value range scaled about its centre
		explained := false
		for _, s := range []*Snap{x.first, x.before} {
			for _, cv := range s.Crit {
				if weighted && !setOf(refs)[cv.Id] {
					continue
				}
				lo, hi := s.rangeOf(cv.Id)
				a0, a1 := scaledAbout(lo, hi, scaling)
				if closeRel(a0, a.Min) && closeRel(a1, a.Max) {
					explained = true
				}
			}
		}
		if !explained {
			return failf("range-is-scaled-reference-range", "reported range [%v,%v] of %q is not the range of an existing criterion scaled about its centre by %v (and matching the reported weight)", a.Min, a.Max, a.Id, scaling)
		}
		B := boundFn(props, a.Min, a.Max)
		lo, hi := B(a.Min), B(a.Max)
		for id, val := range a.Values {
			if !between(val, lo, hi) {
				return failf("concealed-value-in-range", "value %v of %s lies outside the scaled reference range [%v,%v] (after bounding [%v,%v])", val, id, a.Min, a.Max, lo, hi)
			}
		}
	case "criteriaMixing":
		rep := x.rep.propsMap()
		c1, c2 := asM(rep["component1"]), asM(rep["component2"])
		id1, id2 := str(c1["id"]), str(c2["id"])
		if id1 == id2 || x.before.crit(id1) == nil || x.before.crit(id2) == nil {
			return failf("two-distinct-existing-criteria", "components %q and %q are not two distinct criteria of %v", id1, id2, x.before.critIds())
		}
		ratio := 0.5
		if r, ok := props["mixingRatio"]; ok {
			ratio = num(r)
		}
		T := x.after.crit(a.Id).Max
		if !x.after.crit(a.Id).HasRange || x.after.crit(a.Id).Min != 0 {
			return failf("new-range-zero-to-T", "the new criterion's range is %v, expected [0,T]", *x.after.crit(a.Id))
		}
		okT := false
		for _, s := range []*Snap{x.first, x.before} {
			for _, cv := range s.Crit {
				lo, hi := s.rangeOf(cv.Id)
				if closeRel(T, math.Max(math.Max(math.Abs(lo), math.Abs(hi)), hi-lo)) {
					okT = true
				}
			}
		}
		if !okT {
			return failf("T-from-reference-criterion", "T=%v is not max(|min|,|max|,max-min) of any existing criterion", T)
		}
		s1, s2 := numMap(c1["scaledValues"]), numMap(c2["scaledValues"])
		for _, alt := range x.before.all() {
			var sv [2]float64
			for k, id := range []string{id1, id2} {
				cv := x.before.crit(id)
				lo, hi := x.before.rangeOf(id)
				scale := 0.0
				if hi != lo {
					scale = T / (hi - lo)
				}
				if cv.Cost {
					sv[k] = (hi - alt.Vals[id]) * scale
				} else {
					sv[k] = (alt.Vals[id] - lo) * scale
				}
			}
			if !closeRel(s1[alt.Id], sv[0]) || !closeRel(s2[alt.Id], sv[1]) {
				return failf("components-rescaled-to-0-T", "alternative %s: reported scaled components %v / %v, rescaling to [0,%v] gives %v / %v", alt.Id, s1[alt.Id], s2[alt.Id], T, sv[0], sv[1])
			}
			want := ratio*sv[0] + (1-ratio)*sv[1]
			got := a.Values[alt.Id]
			if math.Abs(got-want) > 1e-9*math.Max(math.Abs(sv[0]), math.Abs(sv[1])) { // relative to the components: no absolute floor
				return failf("mixing-formula", "alternative %s: mixed value %v, ratio*c1+(1-ratio)*c2 = %v (ratio %v, c1 %v, c2 %v)", alt.Id, got, want, ratio, sv[0], sv[1])
			}
			if !between(got, sv[0], sv[1]) {
				return failf("mixed-between-components", "alternative %s: mixed value %v is not between %v and %v", alt.Id, got, sv[0], sv[1])
			}
		}
		if x.before.crit(id1).Cost || x.before.crit(id2).Cost {
			st.inc("C18:mixing-cost-component")
		}
	}
	if len(x.before.Crit) >= 2 && len(x.before.all()) >= 2 {
		st.nontrivial("C18", c.Req)
		st.inc("C18:nontrivial:" + x.name + ":" + x.v.Method)
		rep := 0
		for _, n := range prefixNames(x.v) {
			if n == x.name {
				rep++
			}
		}
		if rep >= 2 {
			st.inc("C18:repeated-application")
		}
		st.sample("C18:"+x.name, M{"request": withoutProbes(x.m)})
	}
	return nil
}

func genC18(t *rapid.T) ReqCase {
	g := G{t}
	target := g.Pick("criteriaConcealment", "criteriaMixing")
	if g.Chance(1, 3) { // repeated application of the same bias
		o := GenOpts{ValueMode: -1, Biases: []string{target}, MinBiases: 2, MaxBiases: 3, Probes: true}
		return mkReqCase(genRequest(t, o))
	}
	return mkReqCase(stepRequest(t, GenOpts{ValueMode: -1, BigTiers: true, ValueScales: true}, target, 2))
}

// ---- component level: reference-criterion providers

type C18RefCase struct {
	Weights []float64 `json:"weights"` // ascending importance
	Type    string    `json:"type"`
	Seed0   int64     `json:"seed0"`
	N       int       `json:"n"`
	Import  float64   `json:"importance"`
}

func judgeC18Ref(c C18RefCase) *Fail {
	ranked := make(model.WeightedCriteria, len(c.Weights))
	for i, w := range c.Weights {
		ranked[i] = model.WeightedCriterion{Criterion: model.Criterion{Id: fmt.Sprintf("c%d", i+1), Type: model.Gain}, Weight: w}
	}
	counts := make([]int, len(ranked))
	for j := 0; j < c.N; j++ {
		var params interface{} = utils.Map{"referenceCriterionType": c.Type, "newCriterionRandomSeed": float64(c.Seed0 + int64(j)), "newCriterionImportance": c.Import}
		var got *model.Criterion
		var perr interface{}
		func() {
			defer func() { perr = recover() }()
			cp := make(model.WeightedCriteria, len(ranked))
			copy(cp, ranked)
			got = referenceCriterionManager.ForParams(&params).Provide(&cp)
		}()
		if perr != nil {
			return failf("provider-accepts", "strategy %s rejected valid input: %v", c.Type, perr)
		}
		found := false
		for i := range ranked {
			if ranked[i].Id == got.Id {
				counts[i]++
				found = true
			}
		}
		if !found {
			return failf("reference-is-existing-criterion", "strategy %s returned %q which is not in the ranked list", c.Type, got.Id)
		}
	}
	n := len(ranked)
	switch c.Type {
	case "randomUniform":
		for i, k := range counts {
			if float64(k) < float64(c.N)/float64(n)-6.5*math.Sqrt(float64(c.N)/float64(n))-2 {
				return failf("random-uniform-reaches-every-criterion", "criterion %d of %d chosen %d times over %d seeds: %v", i+1, n, k, c.N, counts)
			}
		}
	case "randomWeighted":
		if n >= 2 && c.Weights[n-1] >= 2*c.Weights[0] && float64(counts[0]-counts[n-1]) < 3*math.Sqrt(float64(c.N)) {
			return failf("random-weighted-prefers-less-important", "weights %v: least important chosen %d times, most important %d times over %d seeds", c.Weights, counts[0], counts[n-1], c.N)
		}
	}
	st.nontrivial("C18ref", fmt.Sprint(c))
	st.add("C18:provider-calls", int64(c.N))
	st.sample("C18ref", M{"case": c, "counts": counts})
	return nil
}

func genC18Ref(t *rapid.T) C18RefCase {
	g := G{t}
	n := g.Int(1, 5)
	w := make([]float64, n)
	cur := g.Unif(0.5, 3)
	for i := range w {
		w[i] = cur
		cur *= g.Unif(2, 4)
	}
	return C18RefCase{Weights: w, Type: g.Pick("importanceRatio", "randomUniform", "randomWeighted"), Seed0: int64(g.Int(0, 1<<40)), N: 1500, Import: g.Unif(0, 1)}
}

func init() {
	register("C18", "C18", 1, genC18, judgeC18)
	register("C18", "C18ref", 0.002, genC18Ref, judgeC18Ref)
}

func TestC18(t *testing.T)    { runRegistered(t, "C18") }
func TestC18Ref(t *testing.T) { runRegistered(t, "C18ref") }
