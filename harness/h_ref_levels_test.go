package main_test

// Reference model of the aspiration-level series (C14) used by C12/C13/C14.

import "math"

const seriesCap = 100000

// refSeries returns the fractions r of the generated series.
// increasing: r starts at minValue, r -> min((1+r)(1+c)-1, 1) [multiplied] or
// min(r+c, 1) [additive], while r < maxValue.
// decreasing: r starts at maxValue, r -> r*c [multiplied] or max(r-c, 0)
// [subtractive], while r > minValue.
func refSeries(function string, increasing bool, coef, mn, mx float64, mg *marginT) (rs []float64, endless bool) {
	if increasing {
		r := mn
		for {
			mg.cmp(r, mx)
			if !(r < mx) {
				break
			}
			if len(rs) >= seriesCap {
				return rs, true
			}
			rs = append(rs, r)
			if function == "idealMultipliedCoefficient" {
				r = math.Min((1+r)*(1+coef)-1, 1)
			} else {
				r = math.Min(r+coef, 1)
			}
		}
	} else {
		r := mx
		for {
			mg.cmp(r, mn)
			if !(r > mn) {
				break
			}
			if len(rs) >= seriesCap {
				return rs, true
			}
			rs = append(rs, r)
			if function == "idealMultipliedCoefficient" {
				r = r * coef
			} else {
				r = math.Max(r-coef, 0)
			}
		}
	}
	return rs, false
}

// refLevels returns the aspiration levels (criterion id -> threshold) the
// method works through, for the state `s` the method receives.
func refLevels(mp M, increasing bool, s *Snap, mg *marginT) (levels []map[string]float64, generated bool, endless bool) {
	return refLevelsR(mp, increasing, s, mg, nil)
}

// refLevelsR additionally takes the response: for an explicit threshold list the thresholds of criteria added
// by biases are seeded random numbers that are only visible in the bias reports (one value per level).
var refLevelsReq *ReqView // set by refLevelsV for the duration of one call (judges are single-threaded per process)

// refLevelsV: as refLevelsR, but a criterion the REQUEST declares a valuesRange for is placed with that declared
// range (C14: "the declared valuesRange if present") whatever a bias may have done to the criterion object.
func refLevelsV(v *ReqView, increasing bool, s *Snap, mg *marginT, r *Resp) ([]map[string]float64, bool, bool) {
	refLevelsReq = v
	defer func() { refLevelsReq = nil }()
	return refLevelsR(v.MP, increasing, s, mg, r)
}

func levelRange(s *Snap, id string) (float64, float64) {
	if refLevelsReq != nil {
		if rc := refLevelsReq.crit(id); rc != nil && rc.HasRange {
			return rc.Min, rc.Max
		}
	}
	return s.rangeOf(id)
}

func refLevelsR(mp M, increasing bool, s *Snap, mg *marginT, r *Resp) (levels []map[string]float64, generated bool, endless bool) {
	fn := str(mp["function"])
	params := asM(mp["params"])
	if fn == "thresholds" {
		for _, t := range asL(params["thresholds"]) {
			levels = append(levels, numMap(t))
		}
		if r != nil {
			for _, a := range addedCriteria(r) {
				ths := asL(asM(a.Params["params"])["thresholds"])
				for i := range levels {
					if i < len(ths) {
						if x, ok := numMap(ths[i])[a.Id]; ok {
							levels[i][a.Id] = x
						}
					}
				}
			}
		}
		return levels, false, false
	}
	rs, endless := refSeries(fn, increasing, num(params["coefficient"]), num(params["minValue"]), num(params["maxValue"]), mg)
	for _, r := range rs {
		lv := map[string]float64{}
		for _, c := range s.Crit {
			lo, hi := levelRange(s, c.Id)
			d := (hi - lo) * r
			if c.Cost {
				lv[c.Id] = hi - d
			} else {
				lv[c.Id] = lo + d
			}
		}
		levels = append(levels, lv)
	}
	return levels, true, endless
}

func signed(c *CritView, x float64) float64 {
	if c.Cost {
		return -x
	}
	return x
}

func closeRel(a, b float64) bool {
	return math.Abs(a-b) <= 1e-9*math.Max(1, math.Max(math.Abs(a), math.Abs(b)))
}
