package main_test

// C01 — every decision is a complete, well-formed ranking.

import (
	"fmt"
	"sort"
	"strings"
	"testing"

	"pgregory.net/rapid"
)

type ReqCase struct {
	Req    string   `json:"request"`
	Labels []string `json:"labels,omitempty"`
}

func (c ReqCase) genLabels() []string { return c.Labels }

func mkReqCase(gr GenReq) ReqCase { return ReqCase{Req: string(mustJSON(gr.Req)), Labels: gr.Labels} }

func errClass(e string) string {
	if len(e) > 40 {
		e = e[:40]
	}
	return e
}

// wellFormedRanking checks the C01 invariant on one accepted response.
func wellFormedRanking(v *ReqView, r *Resp) *Fail {
	want := map[string]bool{}
	for _, c := range v.Chose {
		want[c] = true
	}
	if v.Method == "majorityHeuristic" || v.Method == "satisfactionHeuristic" {
		if cc := str(v.MP["currentChoice"]); cc != "" {
			want[cc] = true
		}
	}
	seen := map[string]int{}
	for _, e := range r.Result {
		seen[e.Alternative.Id]++
	}
	for id := range want {
		if seen[id] != 1 {
			return failf("entry-per-alternative", "alternative %q appears %d times in result (want exactly once); result ids=%v", id, seen[id], resultIds(r))
		}
	}
	for _, id := range sortedKeys(seen) {
		if !want[id] {
			return failf("no-other-entry", "result contains %q which is neither in choseToMake nor the currentChoice; result ids=%v", id, resultIds(r))
		}
	}
	for _, e := range r.Result {
		dup := map[string]bool{}
		for _, b := range e.BetterThanOrSameAs {
			if b == e.Alternative.Id {
				return failf("no-self-link", "entry %q lists itself in betterThanOrSameAs %v", e.Alternative.Id, e.BetterThanOrSameAs)
			}
			if dup[b] {
				return failf("no-duplicate-link", "entry %q lists %q twice: %v", e.Alternative.Id, b, e.BetterThanOrSameAs)
			}
			dup[b] = true
			if seen[b] == 0 {
				return failf("link-in-result", "entry %q links to %q which is not in result %v", e.Alternative.Id, b, resultIds(r))
			}
		}
	}
	return nil
}

func resultIds(r *Resp) []string {
	ids := make([]string, len(r.Result))
	for i, e := range r.Result {
		ids[i] = e.Alternative.Id
	}
	return ids
}

func hasTieClass(r *Resp) bool {
	evs := map[string]int{}
	links := map[string]map[string]bool{}
	for _, e := range r.Result {
		evs[string(mustJSON(e.Evaluation))]++
		links[e.Alternative.Id] = map[string]bool{}
		for _, b := range e.BetterThanOrSameAs {
			links[e.Alternative.Id][b] = true
		}
	}
	for _, n := range evs {
		if n >= 2 {
			return true
		}
	}
	for a, ls := range links {
		for b := range ls {
			if links[b][a] {
				return true
			}
		}
	}
	return false
}

func judgeC01(c ReqCase) *Fail {
	body := []byte(c.Req)
	out := decide(body)
	v := viewReq(parseReqM(body))
	st.inc("C01:method=" + v.Method)
	if !out.OK {
		st.inc("C01:rejected")
		st.inc("C01:rejected:" + v.Method + ":" + errClass(out.Err))
		return nil
	}
	st.inc("C01:accepted")
	r := parseResp(out.Body)
	if f := wellFormedRanking(v, r); f != nil {
		return f
	}
	if len(r.Result) >= 3 && hasTieClass(r) {
		st.nontrivial("C01", c.Req)
		st.inc("C01:nontrivial:" + v.Method)
		st.sample("C01", M{"request": parseReqM(body), "result_ids": resultIds(r)})
	}
	return nil
}

func genC01(t *rapid.T) ReqCase {
	g := G{t}
	o := GenOpts{MaxBiases: 3, ValueMode: -1, Superfluous: true, BiasLikeIds: true, ValueScales: true}
	switch g.Int(0, 9) {
	case 0, 1, 2, 3: // tie-heavy majority (the narrow shape of the self-link defect)
		o.Methods = []string{"majorityHeuristic"}
		o.TieHeavy = true
		o.MinAlts = 3
		o.MaxBiases = 1
	case 4, 5:
		o.TieHeavy = true
	}
	if g.Chance(1, 2) {
		o.MaxBiases = 0
	}
	if g.Chance(1, 12) { // larger problems: sizes where library sorts stop being accidentally stable
		o.MinAlts, o.MaxAlts, o.MaxCrit = 8, 20, 14
	}
	return mkReqCase(genRequest(t, o))
}

func init() {
	register("C01", "C01", 1, genC01, judgeC01)
}

func TestC01(t *testing.T) { runRegistered(t, "C01") }

// FuzzC01: coverage guidance may find tie layouts the hand-made labels miss (thorough tier, wall-clock bounded).
func FuzzC01(f *testing.F) { fuzzRegistered(f, "C01") }

var _ = fmt.Sprint
var _ = sort.Strings
var _ = strings.Join
