package main_test

// C06 — ELECTRE III respects dominance, equality and listing order.

import (
	"fmt"
	"testing"

	"pgregory.net/rapid"
)

type C06Case struct {
	Req       string `json:"request"`
	PermKnown []int  `json:"permKnown"`
	PermChose []int  `json:"permChose"`
	Shift     int    `json:"shift"` // every k multiplied by 2^Shift
	// Between: another (valid) ELECTRE III request decided between the original and its permuted / rescaled
	// forms: the relations hold between any two decisions of one process, not only between consecutive ones
	Between string `json:"between,omitempty"`
}

func weaklyDominates(v *ReqView, a, b *AltView) (dom bool, strict bool, tie bool) {
	dom = true
	for _, c := range v.Criteria {
		x, y := a.Vals[c.Id], b.Vals[c.Id]
		if c.Cost {
			x, y = -x, -y
		}
		if x < y {
			dom = false
		}
		if x > y {
			strict = true
		}
		if x == y {
			tie = true
		}
	}
	return
}

func judgeC06(c C06Case) *Fail {
	body := []byte(c.Req)
	m := parseReqM(body)
	v := viewReq(m)
	out := decide(body)
	if !out.OK {
		return failf("electre-accepted", "valid ELECTRE III request rejected: %s", out.Err)
	}
	r := parseResp(out.Body)
	asc, desc := electreIndices(r)
	// guard: skip instances where a reference comparison is closer than 1e-9 (float noise could decide)
	p := electreProblemOf(v)
	mg := newMargin()
	sig := p.credibility(mg)
	refDistill(sig, p.fa, p.fb, true, mg, nil)
	refDistill(sig, p.fa, p.fb, false, mg, nil)
	ambiguous := mg.min < 1e-9
	if ambiguous {
		st.inc("C06:ambiguous")
	}
	nontrivial := false
	if !ambiguous {
		for _, ia := range v.Chose {
			for _, ib := range v.Chose {
				if ia == ib {
					continue
				}
				a, b := v.alt(ia), v.alt(ib)
				dom, strict, tie := weaklyDominates(v, a, b)
				if !dom {
					continue
				}
				st.inc("C06:dominated-pairs")
				if asc[ia] > asc[ib] || desc[ia] > desc[ib] {
					return failf("dominance-respected", "%s is at least as good as %s on every criterion but has indices asc %d desc %d vs asc %d desc %d", ia, ib, asc[ia], desc[ia], asc[ib], desc[ib])
				}
				if !setOf(r.entry(ia).BetterThanOrSameAs)[ib] {
					return failf("dominance-link", "%s is at least as good as %s on every criterion but does not list it: %v", ia, ib, r.entry(ia).BetterThanOrSameAs)
				}
				if !strict {
					st.inc("C06:twins")
					if asc[ia] != asc[ib] || desc[ia] != desc[ib] {
						return failf("twins-equal-indices", "%s and %s have identical values but indices asc %d/%d desc %d/%d", ia, ib, asc[ia], asc[ib], desc[ia], desc[ib])
					}
				}
				if tie && strict && len(v.Chose) >= 3 {
					nontrivial = true
				}
			}
		}
	}
	if len(v.Chose) >= 65 {
		st.inc("C06:alternatives>=65")
	} else if len(v.Chose) >= 7 {
		st.inc("C06:alternatives 7-16")
	}
	if c.Between != "" {
		st.inc("C06:other-request-in-between")
		decide([]byte(c.Between))
	}
	// permutation of the listing
	m2 := deepCopyM(m).(M)
	m2["knownAlternatives"] = permuted(asL(m["knownAlternatives"]), c.PermKnown)
	m2["choseToMake"] = permuted(asL(m["choseToMake"]), c.PermChose)
	out2 := decide(mustJSON(m2))
	if !out2.OK {
		return failf("permutation-accepted", "permuted listing rejected: %s", out2.Err)
	}
	asc2, desc2 := electreIndices(parseResp(out2.Body))
	if fmt.Sprint(asc) != fmt.Sprint(asc2) || fmt.Sprint(desc) != fmt.Sprint(desc2) {
		return failf("listing-order-invariance", "indices asc %v desc %v become asc %v desc %v when alternatives are listed in another order", asc, desc, asc2, desc2)
	}
	// every k times the same power of two
	m3 := deepCopyM(m).(M)
	scale := 1.0
	for i := 0; i < c.Shift; i++ {
		scale *= 2
	}
	for i := 0; i > c.Shift; i-- {
		scale /= 2
	}
	for _, e := range asM(asM(m3["methodParameters"])["electreCriteria"]) {
		em := e.(M)
		em["k"] = num(em["k"]) * scale
	}
	out3 := decide(mustJSON(m3))
	if !out3.OK {
		return failf("scaling-accepted", "request with every k x 2^%d rejected: %s", c.Shift, out3.Err)
	}
	asc3, desc3 := electreIndices(parseResp(out3.Body))
	if fmt.Sprint(asc) != fmt.Sprint(asc3) || fmt.Sprint(desc) != fmt.Sprint(desc3) {
		return failf("weight-scaling-invariance", "indices asc %v desc %v become asc %v desc %v when every k is multiplied by 2^%d", asc, desc, asc3, desc3, c.Shift)
	}
	if nontrivial {
		st.nontrivial("C06", c.Req)
		st.sample("C06", M{"request": m, "asc": asc, "desc": desc})
	}
	return nil
}

func genC06(t *rapid.T) C06Case {
	g := G{t}
	gr := genElectreReq(t, 2)
	req := gr.Req
	v := viewReq(parseReqM(mustJSON(req)))
	chose := v.Chose
	alts := map[string]M{}
	for _, a := range asL(req["knownAlternatives"]) {
		alts[str(a.(M)["id"])] = a.(M)["criteria"].(M)
	}
	if len(chose) >= 2 {
		src, dst := alts[chose[0]], alts[chose[1]]
		for _, cv := range v.Criteria {
			x := num(src[cv.Id])
			step := 0.0
			if g.Chance(1, 2) {
				if g.Chance(2, 3) {
					step = float64(g.Int(1, 3))
				} else {
					step = g.Unif(0, 3)
				}
			}
			if cv.Cost {
				dst[cv.Id] = x + step
			} else {
				dst[cv.Id] = x - step
			}
		}
		if len(chose) >= 3 && g.Chance(1, 2) { // identical twin
			tw := alts[chose[2]]
			from := alts[chose[g.Int(0, 1)]]
			for k, x := range from {
				tw[k] = x
			}
		}
	}
	nk, nc := len(asL(req["knownAlternatives"])), len(chose)
	c := C06Case{Req: string(mustJSON(req)), PermKnown: g.Perm(nk), PermChose: g.Perm(nc), Shift: g.Int(-3, 8)}
	if g.Chance(1, 4) {
		c.Between = string(mustJSON(genElectreReq(t, 2).Req))
	}
	return c
}

func init() { register("C06", "C06", 1, genC06, judgeC06) }

func TestC06(t *testing.T) { runRegistered(t, "C06") }
