package main_test

// C19 — anchoring shifts values by gains and losses against the reference point.

import (
	"fmt"
	"math"
	"testing"

	"pgregory.net/rapid"
)

func anchFn(def M) func(float64) float64 {
	p := asM(def["params"])
	if str(def["function"]) == "linear" {
		a, b := num(p["a"]), num(p["b"])
		return func(x float64) float64 {
			if a == 0 && b == 0 {
				return 0
			}
			return a*x + b
		}
	}
	al, m := num(p["alpha"]), num(p["multiplier"])
	return func(x float64) float64 { return m*math.Exp(al*x) - m }
}

func identicallyZero(def M) bool {
	p := asM(def["params"])
	if str(def["function"]) == "linear" {
		return num(p["a"]) == 0 && num(p["b"]) == 0
	}
	return num(p["multiplier"]) == 0 || num(p["alpha"]) == 0
}

func close9(a, b float64) bool { return math.Abs(a-b) <= 1e-9*(1+math.Abs(a)+math.Abs(b)) }

// closeS compares two quantities that carry the unit of the data: the tolerance is relative to the magnitude of the
// data involved (no absolute floor - the values may be of magnitude 1e-12).
func closeS(a, b, scale float64) bool { return math.Abs(a-b) <= 1e-9*scale }

func judgeC19(c ReqCase) *Fail {
	body := []byte(c.Req)
	m := parseReqM(body)
	v := viewReq(m)
	real := realBiases(v)
	out, rec := decideProbed(body, true, true)
	x := &stepCtx{v: v, m: m, out: out, rec: rec, idx: len(real) - 1}
	x.name = "anchoring"
	x.props = asM(real[x.idx]["props"])
	if skipOverflow(x) {
		return nil
	}
	if !out.OK {
		// the documented formula may itself be non-finite for the target step
		if expOverflowExpected(v, rec) {
			st.inc("skipped-exp-overflow")
			return nil
		}
		return failf("anchoring-accepted", "%s with biases %v is rejected: %s", v.Method, prefixNames(v), out.Err)
	}
	x.r = parseResp(out.Body)
	x.rep = &x.r.Biases[2*x.idx+1]
	x.first, x.before, x.after = rec.Snaps[0], rec.Snaps[x.idx], rec.Snaps[x.idx+1]
	rep := x.rep.propsMap()
	props := x.props
	ideal := str(asM(props["referencePoints"])["function"]) == "ideal"
	gain, loss := anchFn(asM(props["gain"])), anchFn(asM(props["loss"]))
	applier := asM(props["applier"])
	ap := asM(applier["params"])
	if ap == nil {
		ap = M{}
	}
	// 1. reference point
	rps := asL(rep["referencePoints"])
	if len(rps) != 1 {
		return failf("one-reference-point", "%d reference points reported", len(rps))
	}
	rpVals := numMap(rps[0].(M)["criteria"])
	type anc struct {
		a    *SnapAlt
		coef float64
	}
	var ancs []anc
	for _, e := range asL(props["anchoringAlternatives"]) {
		em := e.(M)
		ancs = append(ancs, anc{x.before.alt(str(em["alternative"])), num(em["coefficient"])})
	}
	ref := map[string]float64{}
	for _, cv := range x.before.Crit {
		score := func(a anc) float64 {
			val := a.a.Vals[cv.Id]
			s := val * a.coef
			if cv.Cost {
				s = -val / a.coef
			}
			if !ideal {
				s = -s
			}
			return s
		}
		best := math.Inf(-1)
		for _, a := range ancs {
			best = math.Max(best, score(a))
		}
		got, has := rpVals[cv.Id]
		ok := false
		for _, a := range ancs {
			if math.Abs(score(a)-best) <= 1e-12*(1+math.Abs(best)) && a.a.Vals[cv.Id] == got {
				ok = true
			}
		}
		if !has || !ok {
			return failf("reference-point", "criterion %s (cost=%v, %s): reference value %v is not the coefficient-weighted extreme of the anchoring alternatives", cv.Id, cv.Cost, str(asM(props["referencePoints"])["function"]), got)
		}
		ref[cv.Id] = got
	}
	// 2. scaling
	scal := asM(rep["criteriaScaling"])
	scale := map[string]float64{}
	rng := map[string][2]float64{}
	for _, cv := range x.before.Crit {
		lo, hi := x.before.rangeOf(cv.Id)
		s := 0.0
		if hi != lo {
			s = 1 / (hi - lo)
		}
		scale[cv.Id], rng[cv.Id] = s, [2]float64{lo, hi}
		sm := asM(scal[cv.Id])
		vr := asM(sm["valuesRange"])
		if sm == nil || !close9(num(sm["scale"]), s) || !closeS(num(vr["min"]), lo, math.Abs(lo)+math.Abs(hi)) || !closeS(num(vr["max"]), hi, math.Abs(lo)+math.Abs(hi)) {
			return failf("criteria-scaling", "criterion %s: reported scaling %v, the range of the received state is [%v,%v] (scale %v)", cv.Id, sm, lo, hi, s)
		}
	}
	// 3. mapped differences per alternative (matched by id)
	diffs := map[string]map[string]float64{}
	prd := asL(rep["perReferencePointsDifferences"])
	if len(prd) != len(x.before.all()) {
		return failf("differences-for-every-alternative", "%d entries in perReferencePointsDifferences for %d known alternatives", len(prd), len(x.before.all()))
	}
	pos, nonpos := false, false
	for _, e := range prd {
		em := e.(M)
		id := str(asM(em["alternative"])["id"])
		a := x.before.alt(id)
		rl := asL(em["referencePointsDifference"])
		if a == nil || len(rl) != 1 {
			return failf("differences-for-every-alternative", "entry for %q is malformed: %v", id, em)
		}
		coefs := numMap(rl[0].(M)["coefficients"])
		diffs[id] = map[string]float64{}
		for _, cv := range x.before.Crit {
			d := (signed(&cv, a.Vals[cv.Id]) - signed(&cv, ref[cv.Id])) * scale[cv.Id]
			var want float64
			if d > 0 {
				want = gain(d)
				pos = true
			} else {
				want = -loss(-d)
				nonpos = true
			}
			got, has := coefs[cv.Id]
			if !has || !close9(got, want) {
				return failf("gain-loss-mapping", "alternative %s criterion %s: scaled difference %v maps to %v, reported %v", id, cv.Id, d, want, got)
			}
			diffs[id][cv.Id] = got
		}
	}
	ar := asM(rep["applierResult"])
	switch str(applier["function"]) {
	case "inline":
		if f := sameCriteriaList(x.before, x.after); f != nil {
			return f
		}
		if f := paramsUnchanged(x.before, x.after); f != nil {
			return f
		}
		onNC, _ := ap["applyOnNotConsidered"].(bool)
		_, bounded := ap["allowedValuesRangeScaling"]
		nonneg, _ := ap["disallowNegativeValues"].(bool)
		zero := identicallyZero(asM(props["gain"])) && identicallyZero(asM(props["loss"]))
		applied := map[string]map[string]float64{}
		for _, e := range asL(ar["appliedDifferences"]) {
			em := e.(M)
			applied[str(em["id"])] = numMap(em["criteria"])
		}
		for _, a := range x.before.all() {
			na := x.after.alt(a.Id)
			touched := v.isChosen(a.Id) || onNC
			if (applied[a.Id] != nil) != touched {
				return failf("applied-differences-listed", "alternative %s (considered=%v, applyOnNotConsidered=%v) listed in appliedDifferences=%v", a.Id, v.isChosen(a.Id), onNC, applied[a.Id] != nil)
			}
			for _, cv := range x.before.Crit {
				old, nw := a.Vals[cv.Id], na.Vals[cv.Id]
				if !touched {
					if old != nw {
						return failf("not-considered-untouched", "(%s,%s) changed from %v to %v although the alternative is not considered", a.Id, cv.Id, old, nw)
					}
					continue
				}
				B := boundFn(ap, rng[cv.Id][0], rng[cv.Id][1])
				want := B(old + (rng[cv.Id][1]-rng[cv.Id][0])*diffs[a.Id][cv.Id])
				if !closeS(nw, want, math.Abs(old)+math.Abs(rng[cv.Id][0])+math.Abs(rng[cv.Id][1])) {
					return failf("inline-formula", "(%s,%s): %v became %v, old + range x mapped difference (bounded) = %v", a.Id, cv.Id, old, nw, want)
				}
				if applied[a.Id][cv.Id] != nw-old {
					return failf("reports-new-minus-old", "(%s,%s): reported applied difference %v, new - old = %v", a.Id, cv.Id, applied[a.Id][cv.Id], nw-old)
				}
				if zero && !bounded && !nonneg && nw != old {
					return failf("zero-functions-identity", "gain and loss are identically zero but (%s,%s) changed from %v to %v", a.Id, cv.Id, old, nw)
				}
			}
		}
		if zero {
			st.inc("C19:zero-functions")
		}
		st.inc("C19:inline")
	case "newCriterion":
		var mine []AddedCrit
		for _, a := range addedCriteria(x.r) {
			if a.Bias == 2*x.idx+1 {
				mine = append(mine, a)
			}
		}
		if len(mine) != 1 {
			return failf("one-criterion-per-reference-point", "%d criteria added for 1 reference point", len(mine))
		}
		a := &mine[0]
		if setOf(x.before.critIds())[a.Id] {
			return failf("new-id-unused", "new criterion id %q is already used in %v", a.Id, x.before.critIds())
		}
		aft := x.after.critIds()
		if len(aft) != len(x.before.Crit)+1 || aft[len(aft)-1] != a.Id {
			return failf("appended-one-criterion", "criteria %v became %v", x.before.critIds(), aft)
		}
		refC := str(asM(ar["referenceCriterion"])["id"])
		rc := x.before.crit(refC)
		if rc == nil {
			return failf("reference-is-existing-criterion", "reported reference criterion %q is not among %v", refC, x.before.critIds())
		}
		if x.before.ImpErr != "" {
			return failf("harness-importance", "cannot rank criteria of the received state: %s", x.before.ImpErr)
		}
		// the reference criterion is chosen by the configured strategy (importanceRatio is the default)
		if want, ok, amb := expectedImportanceRef(x.before, ap); ok && !amb {
			st.inc("C19:importance-ratio-reference-checked")
			if x.before.Imp[want] != x.before.Imp[refC] {
				return failf("reference-chosen-by-strategy", "importanceRatio (newCriterionImportance=%v) picks %s from the ranking %v %v, reported reference criterion is %s", ap["newCriterionImportance"], want, x.before.ImpOrder, x.before.Imp, refC)
			}
		}
		// importance-weighted mean with importances shifted to >= 0.01 and normalised
		minImp := math.Inf(1)
		for _, w := range x.before.Imp {
			minImp = math.Min(minImp, w)
		}
		// (importance - minimum) + 0.01: subtracting first is exact for the least important criterion whatever the
		// magnitude of the importances (adding 0.01 - minimum at once would lose the 0.01 beyond 1e14, defect D15)
		shifted := func(id string) float64 {
			if minImp < 0.01 {
				return (x.before.Imp[id] - minImp) + 0.01
			}
			return x.before.Imp[id]
		}
		total := 0.0
		for _, id := range x.before.ImpOrder {
			total += shifted(id)
		}
		lo, hi := rng[refC][0], rng[refC][1]
		half := (hi - lo) / 2
		B := boundFn(ap, lo, hi)
		mn, mx := math.Inf(1), math.Inf(-1)
		for _, alt := range x.before.all() {
			na := x.after.alt(alt.Id)
			for id, old := range alt.Vals {
				if na.Vals[id] != old {
					return failf("existing-values-untouched", "(%s,%s) changed from %v to %v", alt.Id, id, old, na.Vals[id])
				}
			}
			mean := 0.0
			for _, id := range x.before.ImpOrder {
				mean += diffs[alt.Id][id] * (shifted(id) / total)
			}
			want := B(lo + half + half*mean)
			got, has := na.Vals[a.Id]
			if !has || !closeS(got, want, math.Abs(lo)+math.Abs(hi)) {
				return failf("new-criterion-formula", "alternative %s: new criterion value %v (present=%v), mid-range + half-range x importance-weighted mean (bounded) = %v", alt.Id, got, has, want)
			}
			if rv, ok := a.Values[alt.Id]; !ok || rv != got {
				return failf("report-values", "alternative %s: reported %v, handed on %v", alt.Id, rv, got)
			}
			mn, mx = math.Min(mn, got), math.Max(mx, got)
		}
		if !a.HasRng || a.Min != mn || a.Max != mx {
			return failf("reported-range-is-observed", "reported valuesRange [%v,%v], observed range of the new values [%v,%v]", a.Min, a.Max, mn, mx)
		}
		if x.after.EvalErr != "" {
			return failf("parameters-extended", "the method cannot evaluate the state with the new criterion: %s", x.after.EvalErr)
		}
		st.inc("C19:newCriterion")
	}
	diffCoef := false
	for i := range ancs {
		if ancs[i].coef != ancs[0].coef {
			diffCoef = true
		}
	}
	hasCost := false
	for _, cv := range x.before.Crit {
		hasCost = hasCost || cv.Cost
	}
	if ((len(ancs) >= 2 && diffCoef) || hasCost) && pos && nonpos {
		st.nontrivial("C19", c.Req)
		st.inc("C19:nontrivial:" + v.Method)
		st.sample("C19:"+str(applier["function"]), M{"request": withoutProbes(m)})
	}
	for _, cv := range x.before.Crit {
		if rng[cv.Id][0] == rng[cv.Id][1] {
			st.inc("C19:degenerate-range")
			break
		}
	}
	return nil
}

func genC19(t *rapid.T) ReqCase {
	return mkReqCase(stepRequest(t, GenOpts{ValueMode: -1, BigTiers: true, ValueScales: true}, "anchoring", 1))
}

func init() { register("C19", "C19", 1, genC19, judgeC19) }

func TestC19(t *testing.T) { runRegistered(t, "C19") }

var _ = fmt.Sprint
