module github.com/Azbesciak/RealDecisionMaker/httpClient

go 1.23

toolchain go1.23.5

require (
	github.com/Azbesciak/RealDecisionMaker/lib v0.0.0-20200913101259-ca28aad3eea7
	github.com/gin-contrib/cors v1.3.0
	github.com/gin-gonic/contrib v0.0.0-20190923054218-35076c1b2bea
	github.com/gin-gonic/gin v1.4.0
	github.com/go-errors/errors v1.0.1
	pgregory.net/rapid v1.3.0
)

require (
	github.com/alecthomas/jsonschema v0.0.0-20200217214135-7152f22193c9 // indirect
	github.com/gin-contrib/sse v0.0.0-20190301062529-5545eab6dad3 // indirect
	github.com/golang/protobuf v1.3.1 // indirect
	github.com/google/go-cmp v0.4.0 // indirect
	github.com/iancoleman/orderedmap v0.0.0-20190318233801-ac98e3ecb4b0 // indirect
	github.com/mattn/go-isatty v0.0.7 // indirect
	github.com/mitchellh/mapstructure v1.1.2 // indirect
	github.com/ugorji/go v1.1.4 // indirect
	golang.org/x/sys v0.0.0-20190507160741-ecd444e8653b // indirect
	golang.org/x/xerrors v0.0.0-20191204190536-9bdfabe68543 // indirect
	gopkg.in/go-playground/validator.v8 v8.18.2 // indirect
	gopkg.in/yaml.v2 v2.2.2 // indirect
)

replace github.com/Azbesciak/RealDecisionMaker/lib => /repo/lib
