package main_test

// Request generators (DESIGN.md §3). Every random choice is drawn from rapid.

import (
	"fmt"
	"math"
	"sort"
	"strings"

	"pgregory.net/rapid"
)

var allMethods = []string{"weightedSum", "owa", "choquetIntegral", "electreIII", "majorityHeuristic", "aspectEliminationHeuristic", "satisfactionHeuristic"}
var utilityMethods = []string{"weightedSum", "owa", "choquetIntegral"}
var heuristicMethods = []string{"majorityHeuristic", "aspectEliminationHeuristic", "satisfactionHeuristic"}
var allBiases = []string{"criteriaOmission", "preferenceReversal", "fatigue", "criteriaConcealment", "criteriaMixing", "anchoring"}
var orderings = []string{"weakest", "strongest", "random", "weakestByProbability", "strongestByProbability"}

const probeName = "verifProbe"

// G wraps rapid.T with terse helpers.
type G struct{ t *rapid.T }

func (g G) Int(lo, hi int) int {
	if hi <= lo {
		return lo
	}
	return rapid.IntRange(lo, hi).Draw(g.t, "i")
}
func (g G) Bool() bool { return rapid.Bool().Draw(g.t, "b") }

// Chance is true with probability about num/den.
func (g G) Chance(num, den int) bool { return rapid.IntRange(1, den).Draw(g.t, "p") <= num }

// Rare is true with probability 2^-bits exactly: rapid's integer ranges favour small values (IntRange(1, 2500)
// yields 1 about one time in ten), fair coin flips do not.
func (g G) Rare(bits int) bool {
	for i := 0; i < bits; i++ {
		if !rapid.Bool().Draw(g.t, "rare") {
			return false
		}
	}
	return true
}
func (g G) Pick(xs ...string) string {
	return xs[rapid.IntRange(0, len(xs)-1).Draw(g.t, "k")]
}
func (g G) PickF(xs ...float64) float64 {
	return xs[rapid.IntRange(0, len(xs)-1).Draw(g.t, "k")]
}

// Float draws with rapid's float generator (biased to simple values).
func (g G) Float(lo, hi float64) float64 { return rapid.Float64Range(lo, hi).Draw(g.t, "f") }

// Unif draws a uniform, generally non-dyadic real.
func (g G) Unif(lo, hi float64) float64 {
	k := rapid.IntRange(0, 1<<30).Draw(g.t, "u")
	return lo + (hi-lo)*float64(k)/float64(1<<30)
}
func (g G) Seed() int64 {
	if g.Chance(1, 8) {
		return rapid.Int64Range(-(1<<53), 1<<53).Draw(g.t, "s")
	}
	return int64(rapid.IntRange(0, 1000).Draw(g.t, "s"))
}
func (g G) Perm(n int) []int {
	idx := make([]int, n)
	for i := range idx {
		idx[i] = i
	}
	return rapid.Permutation(idx).Draw(g.t, "perm")
}

// ---------------------------------------------------------------- options

type GenOpts struct {
	Methods      []string // allowed methods (nil = all)
	Biases       []string // allowed biases (nil = all six)
	MinBiases    int
	MaxBiases    int
	BiasLikeIds  bool // the arbitrary-string ids include names the biases generate themselves (__concealedCriterion__)
	PlainIds     bool // ids c<n> / a<n> only (default: one request in eight has some arbitrary-string ids)
	ValueScales  bool // one request in 16 has all values and declared bounds multiplied by 2^-40, 2^24, 2^30 or 2^40
	BigTiers     bool // one request in 16 has 8-20 alternatives and up to 12 criteria, one in 1024 has 65-70 alternatives
	MinAlts      int  // default 1
	MaxAlts      int  // default 7
	MinCrit      int  // default 1
	MaxCrit      int  // default 5 (Choquet 4)
	ValueMode    int  // -1 = draw; see genValue
	TieHeavy     bool
	Probes       bool // interleave the probe bias (probability 1) around real biases
	AllowProb    bool // applyProbability other than absent/1
	AllowDisable bool
	Superfluous  bool // extra method-parameter entries for undeclared criteria
	NoRange      bool
	PositiveOnly bool // values > 0
	ForceAllCons int  // 0 draw, 1 all considered, 2 proper subset when possible
	GainOnly     bool
	FixedOrder   bool // heuristics: never random ordering
	NoMinMax     bool // omission / reversal without min and max (valid whatever the current criteria count is)
}

// value modes
const (
	vmBinary = iota
	vmSmallInt
	vmHalf
	vmCont
	vmPos
	vmDyadic
	vmCount
)

func genValue(g G, mode int) float64 {
	switch mode {
	case vmBinary:
		return float64(g.Int(0, 1))
	case vmSmallInt:
		return float64(g.Int(0, 3))
	case vmHalf:
		return float64(g.Int(-5, 15)) / 2
	case vmCont:
		return g.Unif(-5, 15)
	case vmPos:
		return g.Unif(0.1, 10)
	case vmDyadic:
		return float64(g.Int(-16, 48)) / 8
	}
	return 0
}

type genState struct {
	g       G
	o       GenOpts
	method  string
	critIds []string
	altIds  []string
	nCrit   int // tracked criteria count through the bias sequence
	labels  []string
}

func (s *genState) label(l string) { s.labels = append(s.labels, l) }

// GenReq is a generated request together with generator-side labels.
type GenReq struct {
	Req    M
	Labels []string
}

func genRequest(t *rapid.T, o GenOpts) GenReq {
	g := G{t}
	s := &genState{g: g, o: o}
	methods := o.Methods
	if len(methods) == 0 {
		methods = allMethods
	}
	s.method = g.Pick(methods...)
	req := M{"preferenceFunction": s.method}
	s.genProblem(req)
	req["methodParameters"] = s.genMethodParams(req)
	req["biases"] = s.genBiases(req)
	req["biasApplyRandomSeed"] = g.Seed()
	// an absent seed is seed 0 (and must not inherit the seed an earlier request or bias carried)
	if dropSeeds(g, req) > 0 {
		s.label("seedAbsent")
	}
	return GenReq{Req: req, Labels: s.labels}
}

var seedKeys = map[string]bool{"randomSeed": true, "newCriterionRandomSeed": true, "biasApplyRandomSeed": true}

// dropSeeds removes each seed field of the request with probability 1/8 (keys visited in sorted order).
func dropSeeds(g G, x interface{}) int {
	n := 0
	switch v := x.(type) {
	case M:
		for _, k := range sortedKeys(v) {
			if seedKeys[k] {
				if g.Chance(1, 8) {
					delete(v, k)
					n++
				}
				continue
			}
			n += dropSeeds(g, v[k])
		}
	case []interface{}:
		for _, e := range v {
			n += dropSeeds(g, e)
		}
	}
	return n
}

func (s *genState) genProblem(req M) {
	g, o := s.g, s.o
	minC, maxC := o.MinCrit, o.MaxCrit
	if minC == 0 {
		minC = 1
	}
	if maxC == 0 {
		maxC = 5
	}
	minA, maxA := o.MinAlts, o.MaxAlts
	choquetCap := 4
	if o.BigTiers {
		if g.Rare(4) {
			minA, maxA, maxC, choquetCap = 8, 20, 12, 6
			s.label("size=big")
		} else if g.Rare(10) {
			minA, maxA, maxC, choquetCap = 65, 70, 20, 6
			s.label("size=huge")
		}
	}
	if s.method == "choquetIntegral" && maxC > choquetCap {
		maxC = choquetCap // the capacity table has 2^n entries
	}
	if minC > maxC {
		minC = maxC
	}
	nc := g.Int(minC, maxC)
	if minA == 0 {
		minA = 1
	}
	if maxA == 0 {
		maxA = 7
	}
	na := g.Int(minA, maxA)
	cpool := 5
	if maxC > cpool {
		cpool = maxC
	}
	cp := g.Perm(cpool)
	pool := 9
	if maxA+2 > pool {
		pool = maxA + 2
	}
	ap := g.Perm(pool)
	s.critIds = nil
	for i := 0; i < nc; i++ {
		s.critIds = append(s.critIds, fmt.Sprintf("c%d", cp[i]+1))
	}
	s.altIds = nil
	for i := 0; i < na; i++ {
		s.altIds = append(s.altIds, fmt.Sprintf("a%d", ap[i]+1)) // unpadded: "a10" < "a2" as strings
	}
	if !o.PlainIds && g.Rare(3) {
		// ids are arbitrary strings: blanks, non-ASCII letters, other letter case, digits only, ids that look like the
		// names biases generate, ids of the other kind (a criterion called a1); never empty, never with a comma
		// (Choquet capacity keys are comma-separated id lists)
		exoticC := []string{" ", " c1", "c 1", "C1", "ć1", "__concealedCriterion__", "__c1+c2__", "1", "c1_", "a1", "c01", "criterion-with-a-rather-long-identifier-0123456789", "c1\\t", "\"q\""}
		exoticA := []string{" ", "\t", " a1", "a 1", "A1", "ä1", "1", "c1", "a1 ", "a01", "alternative-with-a-rather-long-identifier-0123456789", "a+b", "\"q\""}
		if !o.BiasLikeIds {
			// oracles that look a criterion's declared weight or range up by id cannot tell a declared
			// __concealedCriterion__ that was omitted from the bias-made criterion that then takes its name
			var keep []string
			for _, x := range exoticC {
				if !strings.HasPrefix(x, "__") {
					keep = append(keep, x)
				}
			}
			exoticC = keep
		}
		replaceSome := func(ids []string, pool []string) {
			used := map[string]bool{}
			for _, id := range ids {
				used[id] = true
			}
			for i := range ids {
				if !g.Bool() {
					continue
				}
				x := pool[g.Int(0, len(pool)-1)]
				if !used[x] {
					used[x] = true
					ids[i] = x
				}
			}
		}
		replaceSome(s.critIds, exoticC)
		replaceSome(s.altIds, exoticA)
		s.label("exoticIds")
		if o.BiasLikeIds && g.Bool() {
			// several declared criteria named like the ids a bias would generate next: base, base1, base2, ... from
			// some start, so that the search for an unused name has to skip more than one
			base := g.Pick("__concealedCriterion__", "__"+s.critIds[0]+"+"+s.critIds[len(s.critIds)-1]+"__", "__anchoring_criterion_ideal", "__anchoring_criterion_nadir")
			start := g.Int(0, 3)
			for i := range s.critIds {
				if i == 0 && g.Bool() {
					continue
				}
				id := base
				if n := start + i; n > 0 {
					id = fmt.Sprintf("%s%d", base, n)
				}
				s.critIds[i] = id
			}
			s.label("numberedBiasLikeIds")
		}
	}
	mode := o.ValueMode
	if mode < 0 {
		if o.TieHeavy {
			mode = g.Int(vmBinary, vmHalf)
		} else {
			mode = g.Int(0, vmCount-1)
		}
	}
	if o.PositiveOnly && (mode == vmHalf || mode == vmCont || mode == vmDyadic) {
		mode = vmPos
	}
	s.label(fmt.Sprintf("vmode=%d", mode))
	gainOnly := o.GainOnly || s.method == "owa" || s.method == "choquetIntegral"
	alts := make([]M, na)
	for i := range alts {
		alts[i] = M{"id": s.altIds[i], "criteria": M{}}
	}
	crits := make([]interface{}, nc)
	for ci, id := range s.critIds {
		typ := "gain"
		if !gainOnly && g.Chance(2, 5) {
			typ = "cost"
		}
		c := M{"id": id, "type": typ}
		if typ == "gain" && s.method != "choquetIntegral" && g.Chance(1, 5) { // Choquet insists on an explicit "gain"
			delete(c, "type") // `gain` is the documented default
			s.label("defaultType")
		}
		mn, mx := math.Inf(1), math.Inf(-1)
		for _, a := range alts {
			v := genValue(g, mode)
			if o.PositiveOnly && v <= 0 {
				v = 1
			}
			a["criteria"].(M)[id] = v
			mn, mx = math.Min(mn, v), math.Max(mx, v)
		}
		if !o.NoRange && g.Chance(1, 3) {
			lo := mn - float64(g.Int(0, 2))
			hi := mx + float64(g.Int(0, 2))
			if hi <= lo {
				hi = lo + 1
			}
			c["valuesRange"] = M{"min": lo, "max": hi}
			s.label("declaredRange")
		}
		crits[ci] = c
	}
	// twins / copies (identical alternatives) and near-copies
	if na >= 2 && g.Chance(1, 4) {
		src, dst := g.Int(0, na-1), g.Int(0, na-1)
		if src != dst {
			for k, v := range alts[src]["criteria"].(M) {
				alts[dst]["criteria"].(M)[k] = v
			}
			s.label("twin")
		}
	}
	known := make([]interface{}, na)
	for i := range alts {
		known[i] = alts[i]
	}
	if o.ValueScales && g.Rare(4) {
		// the same problem in another unit: every value and declared bound times 2^-40 or 2^30 (exact in binary)
		f := 1 / float64(int64(1)<<40)
		lbl := "valuesTiny"
		switch g.Int(0, 3) {
		case 1:
			f, lbl = float64(int64(1)<<30), "valuesLarge"
		case 2:
			f, lbl = float64(int64(1)<<40), "valuesHuge"
		case 3:
			f, lbl = float64(int64(1)<<24), "valuesTensOfMillions" // where the 1e-8 rounding meets the float spacing
		}
		for _, a := range alts {
			cm := a["criteria"].(M)
			for k := range cm {
				cm[k] = num(cm[k]) * f
			}
		}
		for _, c := range crits {
			if vr := asM(c.(M)["valuesRange"]); vr != nil {
				vr["min"], vr["max"] = num(vr["min"])*f, num(vr["max"])*f
			}
		}
		s.label(lbl)
	}
	req["criteria"] = crits
	req["knownAlternatives"] = known
	// choseToMake: non-empty distinct subset in any order
	perm := g.Perm(na)
	k := g.Int(1, na)
	switch o.ForceAllCons {
	case 1:
		k = na
	case 2:
		if na > 1 {
			k = g.Int(1, na-1)
		}
	default:
		if g.Chance(1, 3) {
			k = na
		}
	}
	chose := make([]interface{}, k)
	for i := 0; i < k; i++ {
		chose[i] = s.altIds[perm[i]]
	}
	if k == na {
		s.label("allConsidered")
	}
	req["choseToMake"] = chose
	s.nCrit = nc
}

func (s *genState) genWeights(allowNeg bool) M {
	g := s.g
	w := M{}
	mode := g.Int(0, 3)
	if s.o.TieHeavy && g.Chance(1, 2) {
		mode = 0
	}
	base := float64(g.Int(1, 4))
	for _, id := range s.critIds {
		switch mode {
		case 0:
			w[id] = base
		case 1:
			w[id] = float64(g.Int(1, 9))
			if allowNeg && g.Chance(1, 6) {
				w[id] = 0 // a criterion of importance exactly 0
			}
		case 2:
			w[id] = g.Unif(0.05, 10)
		default:
			if allowNeg {
				w[id] = g.Unif(-5, 10)
			} else {
				w[id] = g.Unif(0.05, 10)
			}
		}
	}
	if mode == 0 {
		s.label("equalWeights")
	}
	s.squeezeWeights(w)
	return w
}

// squeezeWeights rewrites, one time in eight, a weight vector into one with the same order relations but an
// unusual scale: all weights within 1e-9 of each other (1 + rank x 2^-34), or all weights tiny (x 2^-40).
// Both maps are exact in binary, so equal weights stay equal and distinct ones distinct.
func (s *genState) squeezeWeights(w M) {
	g := s.g
	if !g.Rare(3) {
		return
	}
	if g.Bool() {
		var vals []float64
		for _, k := range sortedKeys(w) {
			vals = append(vals, num(w[k]))
		}
		sort.Float64s(vals)
		rank := map[float64]int{}
		for _, x := range vals {
			if _, ok := rank[x]; !ok {
				rank[x] = len(rank)
			}
		}
		for _, k := range sortedKeys(w) {
			w[k] = 1 + float64(rank[num(w[k])])/float64(int64(1)<<34)
		}
		s.label("weightsWithin1e-9")
	} else {
		for _, k := range sortedKeys(w) {
			w[k] = num(w[k]) / float64(int64(1)<<40)
		}
		s.label("weightsTiny")
	}
}

// distinctWeights gives pairwise distinct positive weights.
func (s *genState) distinctWeights() M {
	g := s.g
	p := g.Perm(len(s.critIds))
	w := M{}
	for i, id := range s.critIds {
		w[id] = float64(p[i]+1) + float64(g.Int(0, 3))/8
	}
	if g.Chance(1, 6) {
		// the lightest criterion weighs exactly 0 (still distinct from the others, still the last one looked at)
		lightest := ""
		for _, id := range sortedKeys(w) {
			if lightest == "" || num(w[id]) < num(w[lightest]) {
				lightest = id
			}
		}
		w[lightest] = 0.0
		s.label("zeroWeight")
	}
	s.squeezeWeights(w)
	return w
}

func (s *genState) superfluous(w M, val func() interface{}) {
	if s.o.Superfluous && s.g.Chance(1, 4) {
		w["zz_extra"] = val()
		s.label("superfluousParam")
	}
}

func (s *genState) currentChoice(req M) (string, bool) {
	g := s.g
	switch g.Int(0, 3) {
	case 0, 1:
		return "", false
	case 2: // from the considered set
		ch := asL(req["choseToMake"])
		s.label("currentChoiceConsidered")
		return ch[g.Int(0, len(ch)-1)].(string), true
	default:
		var rest []string
		for _, id := range s.altIds {
			in := false
			for _, c := range asL(req["choseToMake"]) {
				if c == id {
					in = true
				}
			}
			if !in {
				rest = append(rest, id)
			}
		}
		if len(rest) == 0 {
			return "", false
		}
		s.label("currentChoiceOutside")
		return rest[g.Int(0, len(rest)-1)], true
	}
}

func (s *genState) critRangeOf(req M, id string) (float64, float64) {
	mn, mx := math.Inf(1), math.Inf(-1)
	for _, a := range asL(req["knownAlternatives"]) {
		v := num(a.(M)["criteria"].(M)[id])
		mn, mx = math.Min(mn, v), math.Max(mx, v)
	}
	return mn, mx
}

func (s *genState) genLevels(req M, increasing bool) (string, M) {
	g := s.g
	switch g.Int(0, 2) {
	case 0:
		nl := g.Int(1, 4)
		// a monotone list of levels per criterion, in preference direction
		ths := make([]interface{}, nl)
		rs := make([]float64, nl)
		for l := range rs {
			rs[l] = float64(g.Int(0, 8)) / 8
		}
		sort.Float64s(rs)
		if !increasing {
			for i, j := 0, nl-1; i < j; i, j = i+1, j-1 {
				rs[i], rs[j] = rs[j], rs[i]
			}
		}
		view := viewReq(req)
		for l := 0; l < nl; l++ {
			th := M{}
			for _, id := range s.critIds {
				mn, mx := s.critRangeOf(req, id)
				if mx == mn {
					mx = mn + 1
				}
				r := rs[l]
				if g.Chance(1, 5) {
					r = float64(g.Int(0, 8)) / 8
				}
				if view.crit(id).Cost {
					th[id] = mx - r*(mx-mn)
				} else {
					th[id] = mn + r*(mx-mn)
				}
			}
			ths[l] = th
		}
		s.label("levels=thresholds")
		return "thresholds", M{"thresholds": ths}
	case 1:
		s.label("levels=mul")
		return "idealMultipliedCoefficient", s.genSeriesParams(increasing)
	default:
		s.label("levels=add")
		if increasing {
			return "idealAdditiveCoefficient", s.genSeriesParams(increasing)
		}
		return "idealSubtractiveCoefficient", s.genSeriesParams(increasing)
	}
}

func (s *genState) genSeriesParams(increasing bool) M {
	g := s.g
	var coef, lo, hi float64
	if g.Chance(1, 2) { // dyadic
		coef = float64(g.Int(1, 7)) / 8
		lo = float64(g.Int(0, 4)) / 8
		hi = float64(g.Int(3, 8)) / 8
		s.label("seriesDyadic")
	} else {
		coef = g.Unif(0.08, 0.95)
		lo = g.Unif(0, 0.5)
		hi = g.Unif(0.3, 1)
	}
	if !increasing && lo <= 0 {
		lo = 0.125
	}
	if !increasing && hi <= 0 {
		hi = 0.5
	}
	return M{"coefficient": coef, "minValue": lo, "maxValue": hi}
}

func (s *genState) genMethodParams(req M) M {
	g := s.g
	mp := M{}
	switch s.method {
	case "weightedSum":
		w := s.genWeights(true)
		s.superfluous(w, func() interface{} { return 2.5 })
		mp["weights"] = w
	case "owa":
		mp["weights"] = s.genWeights(true)
	case "choquetIntegral":
		w := M{}
		nc := len(s.critIds)
		additive := g.Chance(1, 6)
		single := map[string]float64{}
		for _, id := range s.critIds {
			den := 16.0 // singleton capacities whose sum stays within [0,1] (additive capacities are sums of them)
			if nc > 4 {
				den = 32
			}
			single[id] = float64(g.Int(0, 4)) / den
		}
		grid := g.Chance(1, 2)
		for mask := 1; mask < 1<<uint(nc); mask++ {
			var ks []string
			sum := 0.0
			for j := 0; j < nc; j++ {
				if mask&(1<<uint(j)) != 0 {
					ks = append(ks, s.critIds[j])
					sum += single[s.critIds[j]]
				}
			}
			// keys in random member order
			p := g.Perm(len(ks))
			ord := make([]string, len(ks))
			for i := range ks {
				ord[i] = ks[p[i]]
			}
			var v float64
			switch {
			case additive:
				v = sum
			case grid:
				v = float64(g.Int(0, 10)) / 10
			default:
				v = g.Unif(0, 1)
			}
			w[strings.Join(ord, ",")] = v
		}
		if additive {
			s.label("choquetAdditive")
		}
		mp["weights"] = w
	case "electreIII":
		ec := M{}
		dy := g.Chance(1, 2)
		for _, id := range s.critIds {
			e := M{}
			if dy {
				e["k"] = float64(g.Int(1, 4))
			} else {
				e["k"] = g.Unif(0.1, 5)
			}
			var q, p, v float64
			if dy {
				q = float64(g.Int(0, 2))
				p = q + float64(int(1)<<uint(g.Int(0, 2)))
				v = p + float64(int(1)<<uint(g.Int(0, 3)))
			} else {
				q = g.Unif(0, 2)
				p = q + g.Unif(0.1, 3)
				v = p + g.Unif(0.1, 5)
			}
			if g.Chance(2, 3) && q > 0 {
				e["q"] = M{"b": q}
			}
			hasP := g.Chance(3, 4)
			if hasP {
				e["p"] = M{"b": p}
				if g.Chance(1, 2) {
					e["v"] = M{"b": v}
				}
			}
			ec[id] = e
		}
		ks := M{}
		for id, e := range ec {
			ks[id] = asM(e)["k"]
		}
		s.squeezeWeights(ks) // k of an unusual scale: all within 1e-9 of each other, or all tiny
		for id, e := range ec {
			asM(e)["k"] = ks[id]
		}
		s.superfluous(ec, func() interface{} { return M{"k": 1.0} })
		mp["electreCriteria"] = ec
		if g.Chance(1, 2) {
			switch g.Int(0, 5) {
			case 0: // boundary functions of the documented domain: identically zero, constant, zero at credibility 1
				mp["electreDistillation"] = []interface{}{M{"a": 0.0, "b": 0.0}, M{}, M{"a": 0.0, "b": 0.125}, M{"a": -0.25, "b": 0.25}, M{"b": 0.25}}[g.Int(0, 4)]
			case 1, 2:
				mp["electreDistillation"] = M{"a": -float64(g.Int(0, 2)) / 8, "b": float64(g.Int(2, 4)) / 8}
			default:
				b := g.Unif(0.05, 0.5)
				a := -g.Unif(0, b)
				mp["electreDistillation"] = M{"a": a, "b": b}
			}
			s.label("customDistillation")
		}
	case "majorityHeuristic":
		w := s.genWeights(true)
		s.superfluous(w, func() interface{} { return 1.5 })
		mp["weights"] = w
		mp["randomSeed"] = g.Seed()
		if !s.o.FixedOrder {
			mp["randomAlternativesOrdering"] = g.Bool()
		}
		if dr := g.Pick("", "allow", "current", "newer", "random"); dr != "" {
			mp["drawResolution"] = dr
		}
		if s.o.TieHeavy && g.Chance(1, 2) {
			mp["drawResolution"] = "allow"
		}
		if cc, ok := s.currentChoice(req); ok {
			mp["currentChoice"] = cc
		}
	case "aspectEliminationHeuristic":
		var w M
		if g.Chance(4, 5) || len(s.critIds) > 6 { // the oracle enumerates the tie-breaks of equal weights: k! orders
			w = s.distinctWeights()
		} else {
			w = s.genWeights(false)
			s.label("aspectWeightTiesPossible")
		}
		s.superfluous(w, func() interface{} { return 0.5 })
		mp["weights"] = w
		mp["randomSeed"] = g.Seed()
		if !s.o.FixedOrder {
			mp["randomAlternativesOrdering"] = g.Bool()
		}
		mp["function"], mp["params"] = s.genLevels(req, true)
	case "satisfactionHeuristic":
		mp["randomSeed"] = g.Seed()
		if !s.o.FixedOrder {
			mp["randomAlternativesOrdering"] = g.Bool()
		}
		mp["function"], mp["params"] = s.genLevels(req, false)
		if cc, ok := s.currentChoice(req); ok {
			mp["currentChoice"] = cc
		}
	}
	return mp
}

func (s *genState) refCriterion(p M) {
	g := s.g
	switch g.Int(0, 3) {
	case 0: // default strategy
	case 1:
		p["referenceCriterionType"] = "importanceRatio"
		p["newCriterionImportance"] = g.PickF(0, 0.25, 0.5, 1, g.Unif(0, 1))
	case 2:
		p["referenceCriterionType"] = "randomUniform"
		p["newCriterionRandomSeed"] = g.Seed()
	default:
		p["referenceCriterionType"] = "randomWeighted"
		p["newCriterionRandomSeed"] = g.Seed()
	}
}

func (s *genState) bounding(p M) {
	g := s.g
	if g.Chance(1, 2) {
		p["allowedValuesRangeScaling"] = g.PickF(0.5, 1, 2, g.Unif(0.25, 3))
	}
	if g.Chance(1, 3) {
		p["disallowNegativeValues"] = true
	}
}

// splitProps draws ratio/min/max so that k <= limit (limit = n-1 for omission, n for reversal).
func (s *genState) splitProps(p M, n, limit int) int {
	g := s.g
	var ratio float64
	switch g.Int(0, 3) {
	case 0:
		if n > 0 {
			ratio = float64(g.Int(0, n)) / float64(n) // ratio*n integral
		}
	case 1:
		ratio = g.PickF(0, 0.25, 0.5, 0.75, 1)
	default:
		ratio = g.Unif(0, 1)
	}
	p["ratio"] = ratio
	k := int(math.Floor(float64(n) * ratio))
	mn, mx := 0, math.MaxInt32
	if s.o.NoMinMax {
		if ratio >= 1 && limit < n {
			ratio = 0.5
			p["ratio"] = ratio
			k = int(math.Floor(float64(n) * ratio))
		}
		if g.Chance(4, 5) {
			p["ordering"] = g.Pick(orderings...)
		}
		p["randomSeed"] = g.Seed()
		return k
	}
	if g.Chance(1, 3) {
		mn = g.Int(0, limit)
		p["min"] = mn
	}
	if k > limit || g.Chance(1, 3) {
		lo := mn
		mx = g.Int(lo, maxInt(lo, limit))
		p["max"] = mx
	}
	if k < mn {
		k = mn
	} else if k > mx {
		k = mx
	}
	if g.Chance(4, 5) {
		p["ordering"] = g.Pick(orderings...)
	}
	p["randomSeed"] = g.Seed()
	return k
}

func maxInt(a, b int) int {
	if a > b {
		return a
	}
	return b
}

// dropSomeKeys removes, one time in six, one key of a parameter object whose absent keys mean 0.
func (s *genState) dropSomeKeys(p M) {
	if len(p) == 0 || !s.g.Chance(1, 6) {
		return
	}
	ks := sortedKeys(p)
	delete(p, ks[s.g.Int(0, len(ks)-1)])
}

func (s *genState) genBiasProps(name string, req M) M {
	g := s.g
	p := M{}
	switch name {
	case "criteriaOmission":
		k := s.splitProps(p, s.nCrit, s.nCrit-1)
		s.nCrit -= k
	case "preferenceReversal":
		s.splitProps(p, s.nCrit, s.nCrit)
	case "fatigue":
		if g.Chance(1, 2) {
			p["function"] = "const"
			p["params"] = M{"value": g.PickF(0, 0.125, 0.5, 1, -0.25, g.Unif(0, 1.5))}
		} else {
			p["function"] = "expFromZero"
			p["params"] = M{"alpha": g.Unif(0.01, 0.2), "multiplier": g.Unif(0.1, 2), "queryNumber": g.Int(0, 20)}
		}
		// an absent numeric parameter is 0 (and must not inherit the value an earlier application decoded)
		s.dropSomeKeys(asM(p["params"]))
		p["randomSeed"] = g.Seed()
		s.bounding(p)
	case "criteriaConcealment":
		p["randomSeed"] = g.Seed()
		if g.Chance(2, 3) {
			p["newCriterionScaling"] = g.PickF(0.5, 1, 2, -1, g.Unif(0.2, 2))
		}
		s.refCriterion(p)
		s.bounding(p)
		s.nCrit++
	case "criteriaMixing":
		p["randomSeed"] = g.Seed()
		if g.Chance(3, 4) {
			p["mixingRatio"] = g.PickF(0, 0.25, 0.5, 1, g.Unif(0, 1))
		}
		s.refCriterion(p)
		if s.nCrit >= 2 {
			s.nCrit++
		}
	case "anchoring":
		n := g.Int(1, 3)
		aa := make([]interface{}, n)
		for j := 0; j < n; j++ {
			aa[j] = M{"alternative": s.altIds[g.Int(0, len(s.altIds)-1)], "coefficient": g.PickF(1, 0.5, 2, 1.0/float64(int64(1)<<40), g.Unif(0.2, 3))}
		}
		p["anchoringAlternatives"] = aa
		fn := func() M {
			if g.Chance(1, 2) {
				if g.Chance(1, 5) {
					return M{"function": "linear", "params": M{"a": 0.0, "b": 0.0}}
				}
				return M{"function": "linear", "params": M{"a": g.PickF(0.5, 1, g.Unif(0, 1.5)), "b": g.PickF(0, 0, 0.125, g.Unif(0, 0.2))}}
			}
			return M{"function": "expFromZero", "params": M{"alpha": g.Unif(0, 1.5), "multiplier": g.PickF(0, 0.5, 1, g.Unif(0, 1.5))}}
		}
		p["loss"], p["gain"] = fn(), fn()
		s.dropSomeKeys(asM(asM(p["loss"])["params"]))
		s.dropSomeKeys(asM(asM(p["gain"])["params"]))
		p["referencePoints"] = M{"function": g.Pick("ideal", "nadir")}
		ap := M{}
		s.bounding(ap)
		if g.Chance(1, 2) {
			if g.Chance(1, 2) {
				ap["applyOnNotConsidered"] = g.Bool()
			}
			p["applier"] = M{"function": "inline", "params": ap}
		} else {
			ap["randomSeed"] = g.Seed()
			s.refCriterion(ap)
			p["applier"] = M{"function": "newCriterion", "params": ap}
			s.nCrit++
		}
	}
	return p
}

func (s *genState) genBiases(req M) []interface{} {
	g, o := s.g, s.o
	names := o.Biases
	if names == nil {
		names = allBiases
	}
	n := 0
	if o.MaxBiases > 0 && len(names) > 0 {
		n = g.Int(o.MinBiases, o.MaxBiases)
	}
	var out []interface{}
	probe := func() {
		if o.Probes {
			out = append(out, M{"name": probeName})
		}
	}
	probe()
	for i := 0; i < n; i++ {
		name := g.Pick(names...)
		save := s.nCrit
		b := M{"name": name, "props": s.genBiasProps(name, req)}
		if o.AllowProb && g.Chance(1, 3) {
			b["applyProbability"] = g.PickF(0, 1, 0.5, g.Unif(0, 1))
			s.label("applyProbability")
		}
		if o.AllowDisable && g.Chance(1, 6) {
			b["disabled"] = true
			s.nCrit = save
			s.label("disabledBias")
		}
		out = append(out, b)
		probe()
	}
	if out == nil {
		out = []interface{}{}
	}
	return out
}
