package main_test

// C07 — biases compose with every method and keep the working data coherent.

import (
	"fmt"
	"math"
	"sort"
	"strings"
	"testing"

	"pgregory.net/rapid"
)

func setOf(xs []string) map[string]bool {
	m := map[string]bool{}
	for _, x := range xs {
		m[x] = true
	}
	return m
}

func sameSet(a, b []string) bool {
	x, y := append([]string{}, a...), append([]string{}, b...)
	sort.Strings(x)
	sort.Strings(y)
	return fmt.Sprint(x) == fmt.Sprint(y)
}

// realBiases lists the non-probe bias entries of a probed request, in order.
func realBiases(v *ReqView) []M {
	var out []M
	for _, b := range v.Biases {
		if str(b["name"]) != probeName {
			out = append(out, b)
		}
	}
	return out
}

// reportedAdded / reportedReversed / reportedOmitted for one bias report.
func reportedAddedIds(r *Resp, biasIdx int) []string {
	var ids []string
	for _, a := range addedCriteria(r) {
		if a.Bias == biasIdx {
			ids = append(ids, a.Id)
		}
	}
	return ids
}

func reportedReversedIds(b *RespBias) []string {
	var ids []string
	for _, c := range asL(b.propsMap()["reversedPreferenceCriteria"]) {
		ids = append(ids, str(c.(M)["id"]))
	}
	return ids
}

// coherentStep checks invariants (ii), (iv), (v), (vi) across one bias step.
func coherentStep(v *ReqView, prev, cur *Snap, bias M, rep *RespBias, r *Resp, repIdx int) *Fail {
	name := str(bias["name"])
	// (ii) every known alternative has a value for every current criterion
	for _, a := range cur.all() {
		for _, c := range cur.Crit {
			if _, ok := a.Vals[c.Id]; !ok {
				return failf("value-for-every-criterion", "after %s alternative %s has no value for current criterion %s (criteria %v, values %v)", name, a.Id, c.Id, cur.critIds(), a.Vals)
			}
		}
	}
	// (iv) alternatives and split unchanged
	if !sameSet(prev.ids(true), cur.ids(true)) || !sameSet(prev.ids(false), cur.ids(false)) {
		return failf("split-unchanged", "%s changed the considered/not-considered split: %v|%v -> %v|%v", name, prev.ids(true), prev.ids(false), cur.ids(true), cur.ids(false))
	}
	// (v) criteria change exactly as reported
	before, after := setOf(prev.critIds()), setOf(cur.critIds())
	var removed, added []string
	for id := range before {
		if !after[id] {
			removed = append(removed, id)
		}
	}
	for id := range after {
		if !before[id] {
			added = append(added, id)
		}
	}
	if len(cur.critIds()) != len(after) {
		return failf("criteria-unique", "after %s the criteria list has duplicates: %v", name, cur.critIds())
	}
	var wantRemoved, wantAdded []string
	if name == "criteriaOmission" {
		wantRemoved = omittedCriteria(rep)
	}
	wantAdded = reportedAddedIds(r, repIdx)
	if !sameSet(removed, wantRemoved) {
		return failf("criteria-disappear-as-reported", "%s: criteria %v -> %v, removed %v but the report says %v", name, prev.critIds(), cur.critIds(), removed, wantRemoved)
	}
	if !sameSet(added, wantAdded) {
		return failf("criteria-appear-as-reported", "%s: criteria %v -> %v, added %v but the report says %v", name, prev.critIds(), cur.critIds(), added, wantAdded)
	}
	// (vi) values not deliberately rewritten are bit-identical
	rewritten := func(alt, crit string) bool {
		switch name {
		case "fatigue":
			return true
		case "preferenceReversal":
			return setOf(reportedReversedIds(rep))[crit]
		case "anchoring":
			ap := asM(asM(bias["props"])["applier"])
			if str(ap["function"]) == "inline" {
				if v.isChosen(alt) {
					return true
				}
				b, _ := asM(ap["params"])["applyOnNotConsidered"].(bool)
				return b
			}
			return false
		}
		return false
	}
	for _, a := range cur.all() {
		pa := prev.alt(a.Id)
		if pa == nil {
			continue
		}
		for _, c := range cur.Crit {
			pv, had := pa.Vals[c.Id]
			if !had || rewritten(a.Id, c.Id) {
				continue
			}
			if pv != a.Vals[c.Id] {
				return failf("earlier-values-stay", "%s changed value of (%s,%s) from %v to %v although it does not rewrite it", name, a.Id, c.Id, pv, a.Vals[c.Id])
			}
		}
	}
	return nil
}

func c07Signature(method string, names []string, err string) string {
	return method + "|" + strings.Join(names, ">") + "|" + errClass(err)
}

func judgeC07(c ReqCase) *Fail {
	body := []byte(c.Req)
	m := parseReqM(body)
	v := viewReq(m)
	real := realBiases(v)
	var names []string
	for _, b := range real {
		names = append(names, str(b["name"]))
	}
	st.inc("C07:method=" + v.Method)
	for i, n := range names {
		st.inc("C07:bias:" + v.Method + ":" + n)
		if i > 0 {
			st.inc("C07:pair:" + names[i-1] + ">" + n)
		}
	}
	out, rec := decideProbed(body, true, true)
	// (i) answered with a ranking
	if !out.OK && strings.Contains(out.Err, "unsupported value") && expOverflowExpected(v, rec) {
		// the anchoring formula itself overflows float64 (e^x with x > 600): outside the numeric domain
		st.inc("C07:skipped-exp-overflow")
		return nil
	}
	if !out.OK {
		return failf("answered-with-ranking", "%s with biases %v is rejected: %s", v.Method, names, out.Err)
	}
	r := parseResp(out.Body)
	if len(rec.Snaps) != len(real)+1 {
		return failf("harness-probe-count", "expected %d snapshots, got %d", len(real)+1, len(rec.Snaps))
	}
	// request's own split
	var known, notCons []string
	for _, a := range v.Known {
		known = append(known, a.Id)
		if !v.isChosen(a.Id) {
			notCons = append(notCons, a.Id)
		}
	}
	s0 := rec.Snaps[0]
	if !sameSet(s0.ids(true), v.Chose) || !sameSet(s0.ids(false), notCons) {
		return failf("split-equals-request", "first stage received %v|%v for choseToMake %v of %v", s0.ids(true), s0.ids(false), v.Chose, known)
	}
	// response bias entries: probe, b1, probe, b2, ... probe
	for i, s := range rec.Snaps {
		// (iii) parameters cover every current criterion (operationally)
		if s.EvalErr != "" {
			return failf("parameters-cover-criteria", "after %d biases %v the method cannot evaluate the state: %s", i, names[:i], s.EvalErr)
		}
		if s.ImpErr != "" {
			return failf("parameters-cover-criteria", "after %d biases %v the criteria cannot be ranked: %s", i, names[:i], s.ImpErr)
		}
		if s.OrigFP != rec.Snaps[0].OrigFP {
			return failf("original-stable", "the `original` state handed to stage %d differs from the one handed to stage 0", i)
		}
		if i == 0 {
			continue
		}
		repIdx := 2*i - 1
		if repIdx >= len(r.Biases) || r.Biases[repIdx].Name != names[i-1] {
			return failf("harness-report-index", "report %d is not %s", repIdx, names[i-1])
		}
		if r.Biases[repIdx].propsNull() {
			// the bias did not fire (apply-probability draw lost, or mixing with < 2 criteria): nothing may change
			prev := rec.Snaps[i-1]
			if fmt.Sprint(prev.Crit, prev.Cons, prev.NotCons, prev.ParamsFP) != fmt.Sprint(s.Crit, s.Cons, s.NotCons, s.ParamsFP) {
				return failf("non-firing-bias-changes-nothing", "%s reports props:null but the state changed:\n before %v %v | %v\n after  %v %v | %v", names[i-1], prev.critIds(), prev.Cons, prev.NotCons, s.critIds(), s.Cons, s.NotCons)
			}
			st.inc("C07:non-firing-step")
			continue
		}
		if f := coherentStep(v, rec.Snaps[i-1], s, real[i-1], &r.Biases[repIdx], r, repIdx); f != nil {
			return f
		}
	}
	// (vii) API-only sibling: same final response without the probe. With fractional apply-probabilities the
	// probe entries shift the positions in the draw sequence, so the sibling is a different experiment: skipped.
	for _, b := range real {
		if p, ok := b["applyProbability"]; ok && num(p) > 0 && num(p) < 1 {
			st.inc("C07:with-fractional-probability")
			return nil
		}
	}
	plain := decide(mustJSON(withoutProbes(m)))
	if !plain.OK {
		return failf("probe-independence", "probed run accepted, plain run rejected: %s", plain.Err)
	}
	pr := parseResp(plain.Body)
	if string(mustJSON(pr.Result)) != string(mustJSON(r.Result)) {
		return failf("probe-independence", "result differs between probed and plain run:\n probed %s\n plain  %s", mustJSON(r.Result), mustJSON(pr.Result))
	}
	if pr.Biases == nil {
		pr.Biases = []RespBias{}
	}
	if string(mustJSON(pr.Biases)) != string(mustJSON(stripProbeReports(r))) {
		return failf("probe-independence", "bias reports differ between probed and plain run")
	}
	last := rec.Snaps[len(rec.Snaps)-1]
	for _, e := range r.Result {
		for _, cid := range last.critIds() {
			if _, ok := e.Alternative.Criteria[cid]; !ok {
				return failf("result-has-final-criteria", "result entry %s lacks final criterion %s", e.Alternative.Id, cid)
			}
		}
	}
	// non-trivial: >= 2 applied biases of which one adds or removes a criterion
	if len(real) >= 2 {
		changes := false
		for i := 1; i < len(rec.Snaps); i++ {
			if !sameSet(rec.Snaps[i-1].critIds(), rec.Snaps[i].critIds()) {
				changes = true
			}
		}
		if changes {
			st.nontrivial("C07", c.Req)
			st.inc("C07:nontrivial:" + v.Method)
			st.sample("C07", M{"request": withoutProbes(m), "criteria_per_stage": func() [][]string {
				var x [][]string
				for _, s := range rec.Snaps {
					x = append(x, s.critIds())
				}
				return x
			}()})
		}
	}
	return nil
}

func genC07(t *rapid.T) ReqCase {
	g := G{t}
	o := GenOpts{MaxBiases: 4, ValueMode: -1, Probes: true, BiasLikeIds: true}
	if g.Chance(1, 5) {
		o.TieHeavy = true
	}
	if g.Chance(1, 15) { // larger problems
		o.MinAlts, o.MaxAlts, o.MaxCrit = 8, 16, 13
	}
	if g.Chance(1, 5) {
		// some biases may lose their apply-probability draw: what earlier biases did must stay in force
		o.AllowProb, o.NoMinMax = true, true
	}
	return mkReqCase(genRequest(t, o))
}

func init() { register("C07", "C07", 1, genC07, judgeC07) }

func TestC07(t *testing.T) { runRegistered(t, "C07") }

// expOverflowExpected: some anchoring bias with an exponential gain/loss is
// applied to a state where alpha x |scaled difference| can exceed 600, i.e. the
// documented formula multiplier x (e^(alpha x d) - 1) is itself not a finite float64.
func expOverflowExpected(v *ReqView, rec *Recorder) bool {
	real := realBiases(v)
	for i, b := range real {
		if str(b["name"]) != "anchoring" || i >= len(rec.Snaps) {
			continue
		}
		p := asM(b["props"])
		alpha := 0.0
		for _, k := range []string{"gain", "loss"} {
			f := asM(p[k])
			if str(f["function"]) == "expFromZero" {
				alpha = math.Max(alpha, math.Abs(num(asM(f["params"])["alpha"])))
			}
		}
		if alpha == 0 {
			continue
		}
		s := rec.Snaps[i]
		maxD := 0.0
		for _, c := range s.Crit {
			mn, mx := s.rangeOf(c.Id)
			if mx == mn {
				continue
			}
			for _, a := range s.all() {
				for _, x := range asL(p["anchoringAlternatives"]) {
					if ra := s.alt(str(x.(M)["alternative"])); ra != nil {
						// a criterion concealed with a negative scaling carries an inverted range (max < min)
						maxD = math.Max(maxD, math.Abs(a.Vals[c.Id]-ra.Vals[c.Id])/math.Abs(mx-mn))
					}
				}
			}
		}
		if alpha*maxD > 600 {
			return true
		}
	}
	return false
}
