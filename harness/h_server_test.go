package main_test

// In-process handler driver and child-process server driver (C10, C20, C02 thorough).

import (
	"bytes"
	"fmt"
	"io"
	"net"
	"net/http"
	"net/http/httptest"
	"os"
	"os/exec"
	"path/filepath"
	"strings"
	"sync"
	"time"

	"github.com/gin-gonic/gin"
)

type HTTPResp struct {
	Code int    `json:"code"`
	Body string `json:"body"`
}

// handleInProcess drives decideHandler from the copied main.go through a gin test context.
func handleInProcess(body []byte) HTTPResp {
	setup()
	w := httptest.NewRecorder()
	c, _ := gin.CreateTestContext(w)
	c.Request = httptest.NewRequest("POST", "/api/decide", bytes.NewReader(body))
	c.Request.Header.Set("Content-Type", "application/json")
	id := sutEnter()
	defer sutLeave(id)
	decideHandler(c)
	return HTTPResp{Code: w.Code, Body: w.Body.String()}
}

func functionsInProcess() HTTPResp {
	setup()
	w := httptest.NewRecorder()
	c, _ := gin.CreateTestContext(w)
	c.Request = httptest.NewRequest("GET", "/api/preferenceFunctions", nil)
	functionsHandler(c)
	return HTTPResp{Code: w.Code, Body: w.Body.String()}
}

// ---------------------------------------------------------------- child server

type Server struct {
	mu      sync.Mutex
	cmd     *exec.Cmd
	port    int
	raceLog string
	client  *http.Client
	starts  int
	waitErr chan error
}

var theServer = &Server{}

func freePort() int {
	l, err := net.Listen("tcp", "127.0.0.1:0")
	if err != nil {
		return 0
	}
	defer l.Close()
	return l.Addr().(*net.TCPAddr).Port
}

func (s *Server) start() error {
	bin := os.Getenv("VERIF_SERVER_BIN")
	if bin == "" {
		return fmt.Errorf("VERIF_SERVER_BIN not set")
	}
	if _, err := os.Stat(bin); err != nil {
		return fmt.Errorf("server binary missing: %v", err)
	}
	s.port = freePort()
	dir := os.Getenv("VERIF_BUILD_DIR")
	if dir == "" {
		dir = os.TempDir()
	}
	s.raceLog = filepath.Join(dir, fmt.Sprintf("race-%d-%d", os.Getpid(), s.starts))
	cmd := exec.Command(bin)
	cmd.Dir = dir
	cmd.Env = append(os.Environ(), fmt.Sprintf("PORT=%d", s.port), "GIN_MODE=release", "GORACE=log_path="+s.raceLog+" halt_on_error=1")
	if v := os.Getenv("VERIF_SERVER_MAXSTACK"); v != "" {
		cmd.Env = append(cmd.Env, "GODEBUG=")
	}
	cmd.Stdout, cmd.Stderr = nil, nil
	if err := cmd.Start(); err != nil {
		return err
	}
	s.cmd = cmd
	s.starts++
	s.waitErr = make(chan error, 1)
	go func(c *exec.Cmd, ch chan error) { ch <- c.Wait() }(cmd, s.waitErr)
	s.client = &http.Client{Timeout: 30 * time.Second}
	deadline := time.Now().Add(20 * time.Second)
	for time.Now().Before(deadline) {
		resp, err := s.client.Get(fmt.Sprintf("http://127.0.0.1:%d/api/preferenceFunctions", s.port))
		if err == nil {
			io.Copy(io.Discard, resp.Body)
			resp.Body.Close()
			return nil
		}
		time.Sleep(50 * time.Millisecond)
	}
	s.stop()
	return fmt.Errorf("server did not become ready")
}

func (s *Server) alive() bool {
	if s.cmd == nil {
		return false
	}
	select {
	case err := <-s.waitErr:
		s.waitErr <- err
		return false
	default:
		return true
	}
}

func (s *Server) stop() {
	if s.cmd != nil && s.cmd.Process != nil {
		s.cmd.Process.Kill()
		select {
		case <-s.waitErr:
		case <-time.After(5 * time.Second):
		}
	}
	s.cmd = nil
}

// ensure (re)starts the server when needed.
func (s *Server) ensure() error {
	s.mu.Lock()
	defer s.mu.Unlock()
	if s.alive() {
		return nil
	}
	s.stop()
	return s.start()
}

func (s *Server) raceReport() string {
	files, _ := filepath.Glob(s.raceLog + "*")
	var sb strings.Builder
	for _, f := range files {
		b, _ := os.ReadFile(f)
		sb.Write(b)
	}
	return sb.String()
}

// post sends one body; err != nil means no HTTP response was obtained.
func (s *Server) post(body []byte) (HTTPResp, error) {
	req, _ := http.NewRequest("POST", fmt.Sprintf("http://127.0.0.1:%d/api/decide", s.port), bytes.NewReader(body))
	req.Header.Set("Content-Type", "application/json")
	resp, err := s.client.Do(req)
	if err != nil {
		return HTTPResp{}, err
	}
	defer resp.Body.Close()
	b, err := io.ReadAll(resp.Body)
	if err != nil {
		return HTTPResp{Code: resp.StatusCode}, err
	}
	return HTTPResp{Code: resp.StatusCode, Body: string(b)}, nil
}

func (s *Server) get(path string) (HTTPResp, error) {
	resp, err := s.client.Get(fmt.Sprintf("http://127.0.0.1:%d%s", s.port, path))
	if err != nil {
		return HTTPResp{}, err
	}
	defer resp.Body.Close()
	b, _ := io.ReadAll(resp.Body)
	return HTTPResp{Code: resp.StatusCode, Body: string(b)}, nil
}
