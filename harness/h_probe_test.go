package main_test

// Probe bias (DESIGN.md §2.2 item 4): an implementation of the public
// model.Bias interface that records deep copies of the `original` and
// `current` states it is handed and returns `current` unchanged (same pointer).

import (
	"fmt"
	"reflect"
	"sort"
	"strconv"
	"strings"

	"github.com/Azbesciak/RealDecisionMaker/lib/model"
)

type SnapAlt struct {
	Id   string             `json:"id"`
	Vals map[string]float64 `json:"vals"`
}

type Snap struct {
	Crit     []CritView         `json:"crit"`
	Cons     []SnapAlt          `json:"cons"`
	NotCons  []SnapAlt          `json:"notCons"`
	ParamsFP string             `json:"paramsFP"`
	Imp      map[string]float64 `json:"imp,omitempty"`
	ImpOrder []string           `json:"impOrder,omitempty"`
	ImpErr   string             `json:"impErr,omitempty"`
	EvalErr  string             `json:"evalErr,omitempty"`
	EvalBody string             `json:"-"`
	OrigFP   string             `json:"-"` // fingerprint of the `original` argument
}

func (s *Snap) critIds() []string {
	r := make([]string, len(s.Crit))
	for i, c := range s.Crit {
		r[i] = c.Id
	}
	return r
}

func (s *Snap) crit(id string) *CritView {
	for i := range s.Crit {
		if s.Crit[i].Id == id {
			return &s.Crit[i]
		}
	}
	return nil
}

func (s *Snap) all() []SnapAlt {
	r := append([]SnapAlt{}, s.Cons...)
	return append(r, s.NotCons...)
}

func (s *Snap) alt(id string) *SnapAlt {
	for i := range s.Cons {
		if s.Cons[i].Id == id {
			return &s.Cons[i]
		}
	}
	for i := range s.NotCons {
		if s.NotCons[i].Id == id {
			return &s.NotCons[i]
		}
	}
	return nil
}

func (s *Snap) ids(cons bool) []string {
	src := s.NotCons
	if cons {
		src = s.Cons
	}
	r := make([]string, len(src))
	for i, a := range src {
		r[i] = a.Id
	}
	return r
}

// observed or declared range of a criterion over all known alternatives of the snapshot
func (s *Snap) rangeOf(id string) (float64, float64) {
	if c := s.crit(id); c != nil && c.HasRange {
		return c.Min, c.Max
	}
	first := true
	var mn, mx float64
	for _, a := range s.all() {
		v, ok := a.Vals[id]
		if !ok {
			continue
		}
		if first {
			mn, mx, first = v, v, false
		} else {
			if v < mn {
				mn = v
			}
			if v > mx {
				mx = v
			}
		}
	}
	return mn, mx
}

func snapAlts(as []model.AlternativeWithCriteria) []SnapAlt {
	r := make([]SnapAlt, len(as))
	for i, a := range as {
		m := make(map[string]float64, len(a.Criteria))
		for k, v := range a.Criteria {
			m[k] = v
		}
		r[i] = SnapAlt{Id: a.Id, Vals: m}
	}
	return r
}

func snapCriteria(cs model.Criteria) []CritView {
	r := make([]CritView, len(cs))
	for i, c := range cs {
		cv := CritView{Id: c.Id, Cost: c.Type == model.Cost}
		if c.ValuesRange != nil {
			cv.HasRange, cv.Min, cv.Max = true, c.ValuesRange.Min, c.ValuesRange.Max
		}
		r[i] = cv
	}
	return r
}

func fpState(d *model.DecisionMakingParams) string {
	var sb strings.Builder
	for _, c := range snapCriteria(d.Criteria) {
		fmt.Fprintf(&sb, "C(%s,%v,%v,%v,%v)", c.Id, c.Cost, c.HasRange, c.Min, c.Max)
	}
	for _, grp := range [][]model.AlternativeWithCriteria{d.ConsideredAlternatives, d.NotConsideredAlternatives} {
		sb.WriteString("|")
		for _, a := range grp {
			sb.WriteString(a.Id + "{")
			for _, k := range sortedKeys(a.Criteria) {
				sb.WriteString(k + "=" + strconv.FormatFloat(a.Criteria[k], 'g', -1, 64) + ",")
			}
			sb.WriteString("}")
		}
	}
	sb.WriteString("|" + fingerprint(d.MethodParameters))
	return sb.String()
}

func deepCopyDMP(d *model.DecisionMakingParams) *model.DecisionMakingParams {
	cp := func(as []model.AlternativeWithCriteria) []model.AlternativeWithCriteria {
		if as == nil {
			return nil
		}
		r := make([]model.AlternativeWithCriteria, len(as))
		for i, a := range as {
			m := make(model.Weights, len(a.Criteria))
			for k, v := range a.Criteria {
				m[k] = v
			}
			r[i] = model.AlternativeWithCriteria{Id: a.Id, Criteria: m}
		}
		return r
	}
	cs := make(model.Criteria, len(d.Criteria))
	for i, c := range d.Criteria {
		cs[i] = c
		if c.ValuesRange != nil {
			vr := *c.ValuesRange
			cs[i].ValuesRange = &vr
		}
	}
	return &model.DecisionMakingParams{
		NotConsideredAlternatives: cp(d.NotConsideredAlternatives),
		ConsideredAlternatives:    cp(d.ConsideredAlternatives),
		Criteria:                  cs,
		MethodParameters:          d.MethodParameters,
	}
}

// fingerprint renders an opaque value canonically through reflection
// (typed getters only, map keys sorted, pointers followed).
func fingerprint(v interface{}) string {
	var sb strings.Builder
	fpValue(&sb, reflect.ValueOf(v), 0)
	return sb.String()
}

func fpValue(sb *strings.Builder, v reflect.Value, depth int) {
	if depth > 12 {
		sb.WriteString("<deep>")
		return
	}
	if !v.IsValid() {
		sb.WriteString("nil")
		return
	}
	switch v.Kind() {
	case reflect.Ptr, reflect.Interface:
		if v.IsNil() {
			sb.WriteString("nil")
			return
		}
		fpValue(sb, v.Elem(), depth+1)
	case reflect.Struct:
		sb.WriteString(v.Type().Name() + "{")
		for i := 0; i < v.NumField(); i++ {
			sb.WriteString(v.Type().Field(i).Name + ":")
			fpValue(sb, v.Field(i), depth+1)
			sb.WriteString(";")
		}
		sb.WriteString("}")
	case reflect.Map:
		type kv struct{ k, v string }
		var kvs []kv
		for _, k := range v.MapKeys() {
			var kb, vb strings.Builder
			fpValue(&kb, k, depth+1)
			fpValue(&vb, v.MapIndex(k), depth+1)
			kvs = append(kvs, kv{kb.String(), vb.String()})
		}
		sort.Slice(kvs, func(i, j int) bool { return kvs[i].k < kvs[j].k })
		sb.WriteString("map[")
		for _, e := range kvs {
			sb.WriteString(e.k + "=" + e.v + ",")
		}
		sb.WriteString("]")
	case reflect.Slice, reflect.Array:
		sb.WriteString("[")
		for i := 0; i < v.Len(); i++ {
			fpValue(sb, v.Index(i), depth+1)
			sb.WriteString(",")
		}
		sb.WriteString("]")
	case reflect.Float32, reflect.Float64:
		sb.WriteString(strconv.FormatFloat(v.Float(), 'g', -1, 64))
	case reflect.Int, reflect.Int8, reflect.Int16, reflect.Int32, reflect.Int64:
		sb.WriteString(strconv.FormatInt(v.Int(), 10))
	case reflect.Uint, reflect.Uint8, reflect.Uint16, reflect.Uint32, reflect.Uint64:
		sb.WriteString(strconv.FormatUint(v.Uint(), 10))
	case reflect.String:
		sb.WriteString(strconv.Quote(v.String()))
	case reflect.Bool:
		sb.WriteString(strconv.FormatBool(v.Bool()))
	case reflect.Func:
		sb.WriteString("func")
	default:
		sb.WriteString("<" + v.Kind().String() + ">")
	}
}

type Recorder struct {
	Snaps    []*Snap
	method   string
	evalToo  bool
	rankToo  bool
	keepLive []*model.DecisionMakingParams // the live states, for post-hoc comparison (C09)
}

type probeBias struct{ rec *Recorder }

func (p *probeBias) Identifier() string { return probeName }

func (p *probeBias) Apply(original, current *model.DecisionMakingParams, props *model.BiasProps, listener *model.BiasListener) *model.BiasedResult {
	s := &Snap{
		Crit:     snapCriteria(current.Criteria),
		Cons:     snapAlts(current.ConsideredAlternatives),
		NotCons:  snapAlts(current.NotConsideredAlternatives),
		ParamsFP: fingerprint(current.MethodParameters),
		OrigFP:   fpState(original),
	}
	if p.rec.rankToo {
		func() {
			defer func() {
				if e := recover(); e != nil {
					s.ImpErr = fmt.Sprint(e)
				}
			}()
			ranked := (*listener).RankCriteriaAscending(deepCopyDMP(current))
			s.Imp = map[string]float64{}
			for _, wc := range *ranked {
				s.Imp[wc.Id] = wc.Weight
				s.ImpOrder = append(s.ImpOrder, wc.Id)
			}
		}()
	}
	if p.rec.evalToo {
		func() {
			defer func() {
				if e := recover(); e != nil {
					s.EvalErr = fmt.Sprint(e)
				}
			}()
			f := funcs.Fetch(p.rec.method)
			res := (*f).Evaluate(deepCopyDMP(current))
			s.EvalBody = string(mustJSON(res))
		}()
	}
	p.rec.Snaps = append(p.rec.Snaps, s)
	p.rec.keepLive = append(p.rec.keepLive, current)
	return &model.BiasedResult{DMP: current, Props: "probe"}
}

// decideProbed runs the request with a private bias map containing the probe.
func decideProbed(body []byte, evalToo, rankToo bool) (Outcome, *Recorder) {
	rec := &Recorder{evalToo: evalToo, rankToo: rankToo}
	m := parseReqM(body)
	rec.method = str(m["preferenceFunction"])
	bm := make(model.BiasMap, len(biases)+1)
	for k, v := range biases {
		bm[k] = v
	}
	bm[probeName] = &probeBias{rec: rec}
	out := decideWith(body, &bm)
	return out, rec
}

// withoutProbes returns the request with every probe entry removed.
func withoutProbes(m M) M {
	c := deepCopyM(m).(M)
	var bs []interface{}
	for _, b := range asL(c["biases"]) {
		if str(b.(M)["name"]) != probeName {
			bs = append(bs, b)
		}
	}
	if bs == nil {
		bs = []interface{}{}
	}
	c["biases"] = bs
	return c
}

// stripProbeReports removes the probe entries from a response's `biases`.
func stripProbeReports(r *Resp) []RespBias {
	out := []RespBias{}
	for _, b := range r.Biases {
		if b.Name != probeName {
			out = append(out, b)
		}
	}
	return out
}
