package main_test

// Independent reference implementation of ELECTRE III (textbook form):
// concordance / discordance / credibility, distillation over index sets.
// Shares no code with lib.

import "math"

type refEleCrit struct {
	K          float64
	Q, P, V    float64
	HasQ, HasP bool
	HasV       bool
	Cost       bool
}

type marginT struct{ min float64 }

func (m *marginT) cmp(a, b float64) {
	d := math.Abs(a - b)
	if d != 0 {
		sc := math.Max(1, math.Max(math.Abs(a), math.Abs(b)))
		if d/sc < m.min {
			m.min = d / sc
		}
	}
}

func newMargin() *marginT { return &marginT{min: math.Inf(1)} }

// refCredibility of "a outranks b".
func refCredibility(a, b []float64, cs []refEleCrit, mg *marginT) float64 {
	wsum, csum := 0.0, 0.0
	ds := make([]float64, len(cs))
	for j, c := range cs {
		ga, gb := a[j], b[j]
		if c.Cost {
			ga, gb = -ga, -gb
		}
		diff := gb - ga // by how much b is better than a
		q, p := 0.0, 0.0
		if c.HasQ {
			q = c.Q
		}
		if c.HasP {
			p = c.P
		} else {
			p = q
		}
		mg.cmp(diff, q)
		mg.cmp(diff, p)
		var cj float64
		switch {
		case diff <= q: // not worse by more than q (in particular: not worse at all)
			cj = 1
		case diff >= p: // beyond the preference threshold (an absent p equals q)
			cj = 0
		default:
			cj = 1 - (diff-q)/(p-q)
		}
		dj := 0.0
		if c.HasV {
			mg.cmp(diff, c.V)
			switch {
			case diff <= p:
				dj = 0
			case diff > c.V:
				dj = 1
			default:
				dj = (diff - p) / (c.V - p)
			}
		}
		wsum += c.K
		csum += c.K * cj
		ds[j] = dj
	}
	C := csum / wsum
	cred := C
	for _, d := range ds {
		if d > C {
			cred *= (1 - d) / (1 - C)
		}
	}
	return cred
}

type distillInfo struct {
	inner      int // inner distillation steps on an ex-aequo set of size >= 2 at a positive cut level
	classes    int
	middleStep bool
}

// refDistill returns class numbers 1..m (1 = best). pickMax: keep the arg-max
// qualification set (max-first distillation); otherwise arg-min, with the
// numbering reversed at the end.
func refDistill(sig [][]float64, fa, fb float64, pickMax bool, mg *marginT, info *distillInfo) []int {
	s := func(x float64) float64 {
		if fa == 0 && fb == 0 {
			return 0
		}
		return fa*x + fb
	}
	n := len(sig)
	class := make([]int, n)
	remaining := make([]int, n)
	for i := range remaining {
		remaining[i] = i
	}
	cls := 1
	for len(remaining) > 0 {
		lambda := 0.0
		for _, i := range remaining {
			for _, j := range remaining {
				if i != j && sig[i][j] > lambda {
					lambda = sig[i][j]
				}
			}
		}
		if lambda == 0 {
			for _, i := range remaining {
				class[i] = cls
			}
			break
		}
		D := append([]int{}, remaining...)
		var C []int
		for {
			thr := lambda - s(lambda)
			next := 0.0
			for _, i := range D {
				for _, j := range D {
					if i == j {
						continue
					}
					mg.cmp(sig[i][j], thr)
					if sig[i][j] < thr && sig[i][j] > next {
						next = sig[i][j]
					}
				}
			}
			q := make([]int, n)
			for _, i := range D {
				for _, j := range D {
					if i == j {
						continue
					}
					v := sig[i][j]
					if v > next {
						mg.cmp(v, sig[j][i]+s(v))
						if v > sig[j][i]+s(v) {
							q[i]++
							q[j]--
						}
					}
				}
			}
			best := q[D[0]]
			for _, i := range D {
				if (pickMax && q[i] > best) || (!pickMax && q[i] < best) {
					best = q[i]
				}
			}
			var Dn []int
			for _, i := range D {
				if q[i] == best {
					Dn = append(Dn, i)
				}
			}
			if len(Dn) == 1 || next == 0 {
				C = Dn
				break
			}
			if info != nil {
				info.inner++
			}
			D = Dn
			lambda = next
		}
		inC := map[int]bool{}
		for _, i := range C {
			class[i] = cls
			inC[i] = true
		}
		var nr []int
		for _, i := range remaining {
			if !inC[i] {
				nr = append(nr, i)
			}
		}
		remaining = nr
		cls++
	}
	mx := 0
	for _, c := range class {
		if c > mx {
			mx = c
		}
	}
	if info != nil {
		info.classes = mx
	}
	if !pickMax {
		for i := range class {
			class[i] = mx + 1 - class[i]
		}
	}
	return class
}
