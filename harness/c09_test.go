package main_test

// C09 — decisions are stateless: inputs untouched, reports faithful, no history.

import (
	"encoding/json"
	"fmt"
	"reflect"
	"testing"

	"github.com/Azbesciak/RealDecisionMaker/lib/model"
	"github.com/Azbesciak/RealDecisionMaker/lib/utils"
	"pgregory.net/rapid"
)

type C09Op struct {
	Req   string `json:"request,omitempty"` // decide a new request
	Again int    `json:"again"`             // or decide the Again-th earlier new request once more (-1 = new)
}

type C09Case struct {
	Ops []C09Op `json:"ops"`
}

// dmSnapshot is a deep copy of the decoded request value, including the spare
// capacity region of its top-level slices.
type dmSnapshot struct {
	PF     string
	Seed   int64
	Known  []model.AlternativeWithCriteria
	Chose  []string
	Crit   []model.Criterion
	Ranges []*utils.ValueRange
	Biases []interface{}
	MP     interface{}
	Lens   [4]int
}

func copyAlts(s []model.AlternativeWithCriteria) []model.AlternativeWithCriteria {
	full := s[:cap(s)]
	out := make([]model.AlternativeWithCriteria, len(full))
	for i, a := range full {
		out[i].Id = a.Id
		if a.Criteria != nil {
			out[i].Criteria = model.Weights{}
			for k, v := range a.Criteria {
				out[i].Criteria[k] = v
			}
		}
	}
	return out
}

func snapshotDM(dm *model.DecisionMaker) dmSnapshot {
	s := dmSnapshot{PF: dm.PreferenceFunction, Seed: dm.BiasApplyRandomSeed}
	s.Known = copyAlts(dm.KnownAlternatives)
	s.Chose = append([]string{}, dm.ChoseToMake[:cap(dm.ChoseToMake)]...)
	full := dm.Criteria[:cap(dm.Criteria)]
	s.Crit = append([]model.Criterion{}, full...)
	for _, c := range full {
		if c.ValuesRange != nil {
			vr := *c.ValuesRange
			s.Ranges = append(s.Ranges, &vr)
		} else {
			s.Ranges = append(s.Ranges, nil)
		}
	}
	fb := dm.Biases[:cap(dm.Biases)]
	for _, b := range fb {
		s.Biases = append(s.Biases, deepCopyAny(b))
	}
	s.MP = deepCopyAny(map[string]interface{}(dm.MethodParameters))
	s.Lens = [4]int{len(dm.KnownAlternatives), len(dm.ChoseToMake), len(dm.Criteria), len(dm.Biases)}
	return s
}

func deepCopyAny(v interface{}) interface{} {
	switch x := v.(type) {
	case map[string]interface{}:
		if x == nil {
			return x
		}
		r := make(map[string]interface{}, len(x))
		for k, e := range x {
			r[k] = deepCopyAny(e)
		}
		return r
	case []interface{}:
		if x == nil {
			return x
		}
		r := make([]interface{}, len(x))
		for i, e := range x {
			r[i] = deepCopyAny(e)
		}
		return r
	}
	return v
}

func (s dmSnapshot) diff(dm *model.DecisionMaker) string {
	now := snapshotDM(dm)
	// pointers in Crit differ by identity: compare ranges by value
	for i := range now.Crit {
		now.Crit[i].ValuesRange = nil
	}
	old := s
	old.Crit = append([]model.Criterion{}, s.Crit...)
	for i := range old.Crit {
		old.Crit[i].ValuesRange = nil
	}
	switch {
	case old.PF != now.PF || old.Seed != now.Seed:
		return "preferenceFunction / biasApplyRandomSeed changed"
	case old.Lens != now.Lens:
		return fmt.Sprintf("slice lengths changed from %v to %v", old.Lens, now.Lens)
	case !reflect.DeepEqual(old.Known, now.Known):
		return fmt.Sprintf("knownAlternatives (incl. spare capacity) changed:\n before %v\n after  %v", old.Known, now.Known)
	case !reflect.DeepEqual(old.Chose, now.Chose):
		return fmt.Sprintf("choseToMake (incl. spare capacity) changed: %v -> %v", old.Chose, now.Chose)
	case !reflect.DeepEqual(old.Crit, now.Crit) || !reflect.DeepEqual(old.Ranges, now.Ranges):
		return fmt.Sprintf("criteria changed: %v -> %v", old.Crit, now.Crit)
	case !reflect.DeepEqual(old.Biases, now.Biases):
		return fmt.Sprintf("biases changed: %v -> %v", old.Biases, now.Biases)
	case !reflect.DeepEqual(old.MP, now.MP):
		return fmt.Sprintf("methodParameters changed: %v -> %v", old.MP, now.MP)
	}
	return ""
}

type c09Entry struct {
	body   string
	dm     *model.DecisionMaker
	snap   dmSnapshot
	result *model.DecisionMakerChoice
	out    Outcome
}

func decideKeep(dm *model.DecisionMaker) (res *model.DecisionMakerChoice, out Outcome) {
	defer func() {
		if e := recover(); e != nil {
			res, out = nil, Outcome{Err: fmt.Sprint(e)}
		}
	}()
	id := sutEnter()
	defer sutLeave(id)
	res = dm.MakeDecision(funcs, biasListeners, &biases, utils.RandomBasedSeedValueGenerator)
	b, err := json.Marshal(res)
	if err != nil {
		return nil, Outcome{Err: "marshal: " + err.Error()}
	}
	return res, Outcome{OK: true, Body: string(b)}
}

func judgeC09(c C09Case) *Fail {
	var hist []*c09Entry // one per executed op
	var news []*c09Entry // the "new" ones, for Again
	spare, repeated, aliasing := false, false, false
	for step, op := range c.Ops {
		body := op.Req
		var first *c09Entry
		if op.Again >= 0 {
			if op.Again >= len(news) {
				continue
			}
			first = news[op.Again]
			body = first.body
			repeated = true
		}
		var dm model.DecisionMaker
		if err := json.Unmarshal([]byte(body), &dm); err != nil {
			return failf("harness-decode", "%v", err)
		}
		e := &c09Entry{body: body, dm: &dm, snap: snapshotDM(&dm)}
		if cap(dm.KnownAlternatives) > len(dm.KnownAlternatives) || cap(dm.ChoseToMake) > len(dm.ChoseToMake) || cap(dm.Criteria) > len(dm.Criteria) {
			spare = true
		}
		e.result, e.out = decideKeep(&dm)
		// (a) the request value handed to the library is untouched
		if d := e.snap.diff(&dm); d != "" {
			return failf("request-untouched", "step %d: making the decision modified the request value: %s", step, d)
		}
		// (c) history independence
		if first != nil {
			if f := sameOutcome(first.out, e.out); f != nil {
				f.Rule = "history-independent/" + f.Rule
				f.Detail = fmt.Sprintf("step %d repeats step-of-request %d after %d other decisions: %s", step, op.Again, len(hist), f.Detail)
				return f
			}
		} else {
			news = append(news, e)
			corpusAdd(body, e.out) // for the fresh-process phase: another process, another history, the same outcome
		}
		hist = append(hist, e)
		// (b) nothing an earlier call returned (or was handed) has changed
		for i, h := range hist {
			if d := h.snap.diff(h.dm); d != "" {
				return failf("earlier-request-untouched", "after step %d the request value of step %d changed: %s", step, i, d)
			}
			if h.result != nil {
				b, err := json.Marshal(h.result)
				if err != nil || string(b) != h.out.Body {
					return failf("earlier-result-untouched", "after step %d the result returned at step %d re-marshals differently:\n then %s\n now  %s", step, i, h.out.Body, b)
				}
			}
		}
		if e.out.OK {
			v := viewReq(parseReqM([]byte(body)))
			if cc := str(v.MP["currentChoice"]); (cc != "" && v.isChosen(cc)) || len(v.Chose) == len(v.Known) {
				if len(v.biasNames()) > 0 {
					aliasing = true
				}
			}
		}
	}
	if aliasing || repeated {
		st.nontrivial("C09hist", string(mustJSON(c)))
		if spare {
			st.inc("C09:spare-capacity")
		}
		if repeated {
			st.inc("C09:repeated-request")
		}
		if aliasing {
			st.inc("C09:aliasing-sensitive")
		}
		st.sample("C09hist", M{"ops": len(c.Ops)})
	}
	return nil
}

func c09Opts(g G) GenOpts {
	o := GenOpts{MaxBiases: 3, ValueMode: -1, BiasLikeIds: true, BigTiers: true}
	switch g.Int(0, 3) {
	case 0:
		o.Methods = heuristicMethods
		o.ForceAllCons = 1
	case 1:
		o.Methods = []string{"majorityHeuristic", "satisfactionHeuristic"}
		o.Biases = []string{"fatigue", "preferenceReversal", "criteriaConcealment"}
		o.MinBiases = 1
	case 2:
		o.ForceAllCons = 1
		o.MinBiases = 1
	}
	return o
}

func genC09(t *rapid.T) C09Case {
	g := G{t}
	n := g.Int(1, 8)
	var c C09Case
	news := 0
	for i := 0; i < n; i++ {
		if news > 0 && g.Chance(1, 3) {
			c.Ops = append(c.Ops, C09Op{Again: g.Int(0, news-1)})
			continue
		}
		gr := genRequest(t, c09Opts(g))
		if g.Chance(1, 8) {
			gr = mutateConstraint(t, gr)
			c.Ops = append(c.Ops, C09Op{Req: string(mustJSON(gr.Req)), Again: -1})
			news++
			continue
		}
		c.Ops = append(c.Ops, C09Op{Req: string(mustJSON(gr.Req)), Again: -1})
		news++
		if g.Chance(1, 3) {
			// a REJECTED relative of the request (one documented constraint broken on it) in between, then the request
			// again: error paths must not leave anything behind either
			c.Ops = append(c.Ops, C09Op{Req: string(mustJSON(mutateConstraint(t, gr).Req)), Again: -1})
			news++
			c.Ops = append(c.Ops, C09Op{Again: news - 2})
		}
	}
	return c
}

// ---- (d) report faithfulness: what a bias reports is what the next stage received,
// compared after the final method ran.

func snapAltsEqualReport(list []interface{}, want []SnapAlt) string {
	if len(list) != len(want) {
		return fmt.Sprintf("report lists %d alternatives, the next stage received %d", len(list), len(want))
	}
	for i, e := range list {
		em := e.(M)
		if str(em["id"]) != want[i].Id || fmt.Sprint(numMap(em["criteria"])) != fmt.Sprint(want[i].Vals) {
			return fmt.Sprintf("report position %d is %s %v, the next stage received %s %v", i, str(em["id"]), numMap(em["criteria"]), want[i].Id, want[i].Vals)
		}
	}
	return ""
}

func judgeC09Rep(c ReqCase) *Fail {
	body := []byte(c.Req)
	m := parseReqM(body)
	v := viewReq(m)
	real := realBiases(v)
	out, rec := decideProbed(body, false, false)
	if !out.OK {
		st.inc("C09:rep-rejected")
		return nil
	}
	r := parseResp(out.Body)
	if len(rec.Snaps) != len(real)+1 {
		return failf("harness-probe-count", "expected %d snapshots, got %d", len(real)+1, len(rec.Snaps))
	}
	// the live states handed on are not altered by later stages or by the final method
	for i, live := range rec.keepLive {
		s := rec.Snaps[i]
		now := &Snap{Crit: snapCriteria(live.Criteria), Cons: snapAlts(live.ConsideredAlternatives), NotCons: snapAlts(live.NotConsideredAlternatives)}
		if fmt.Sprint(now.Crit, now.Cons, now.NotCons) != fmt.Sprint(s.Crit, s.Cons, s.NotCons) {
			return failf("handed-on-state-not-altered", "the state handed to stage %d (after %v) was altered by a later stage or by %s:\n received %v | %v\n now      %v | %v", i, prefixNames(v)[:i], v.Method, s.Cons, s.NotCons, now.Cons, now.NotCons)
		}
		if s.OrigFP != rec.Snaps[0].OrigFP {
			return failf("original-stable", "the `original` state handed to stage %d differs from the one handed to stage 0", i)
		}
	}
	judged := 0
	for i, b := range real {
		rep := &r.Biases[2*i+1]
		next := rec.Snaps[i+1]
		pm := rep.propsMap()
		switch str(b["name"]) {
		case "fatigue":
			if w := snapAltsEqualReport(asL(pm["consideredAlternatives"]), next.Cons); w != "" {
				return failf("report-equals-next-stage-input", "fatigue (bias %d) considered alternatives: %s", i, w)
			}
			if w := snapAltsEqualReport(asL(pm["notConsideredAlternatives"]), next.NotCons); w != "" {
				return failf("report-equals-next-stage-input", "fatigue (bias %d) not-considered alternatives: %s", i, w)
			}
			judged++
		case "preferenceReversal":
			for _, rc := range asL(pm["reversedPreferenceCriteria"]) {
				rm := rc.(M)
				for id, val := range numMap(rm["alternativesValues"]) {
					a := next.alt(id)
					if a == nil || a.Vals[str(rm["id"])] != val {
						return failf("report-equals-next-stage-input", "reversal (bias %d) reports %s=%v for %s, the next stage received %v", i, str(rm["id"]), val, id, a)
					}
				}
				judged++
			}
		}
	}
	for _, a := range addedCriteria(r) {
		next := rec.Snaps[(a.Bias+1)/2]
		for id, val := range a.Values {
			sa := next.alt(id)
			if sa == nil || sa.Vals[a.Id] != val {
				return failf("report-equals-next-stage-input", "added criterion %s: reported %v for %s, the next stage received %v", a.Id, val, id, sa)
			}
		}
		judged++
	}
	if len(real) > 0 {
		last := rec.Snaps[len(rec.Snaps)-1]
		for _, e := range r.Result {
			if fmt.Sprint(e.Alternative.Criteria) != fmt.Sprint(map[string]float64(last.alt(e.Alternative.Id).Vals)) {
				return failf("method-input-is-last-stage-output", "result entry %s carries %v, the last bias handed on %v", e.Alternative.Id, e.Alternative.Criteria, last.alt(e.Alternative.Id).Vals)
			}
		}
	}
	cc := str(v.MP["currentChoice"])
	if judged > 0 && ((cc != "" && v.isChosen(cc)) || len(v.Chose) == len(v.Known)) {
		st.nontrivial("C09rep", c.Req)
		if cc != "" && v.isChosen(cc) {
			st.inc("C09:current-choice-from-considered")
		}
		if len(v.Chose) == len(v.Known) {
			st.inc("C09:all-considered")
		}
		st.sample("C09rep", M{"request": withoutProbes(m)})
	}
	return nil
}

func genC09Rep(t *rapid.T) ReqCase {
	g := G{t}
	o := c09Opts(g)
	o.Probes = true
	o.MinBiases = 1
	return mkReqCase(genRequest(t, o))
}

func init() {
	register("C09", "C09hist", 0.4, genC09, judgeC09)
	register("C09", "C09rep", 1, genC09Rep, judgeC09Rep)
	// fresh-process phase (replay entry): a request decided by another process after ITS history gives the same outcome here
	register("C09", "C09fresh", 0.01, func(t *rapid.T) C02FreshCase {
		b := mustJSON(genRequest(t, c09Opts(G{t})).Req)
		return C02FreshCase{Req: string(b), Expected: decide(b)}
	}, judgeC02Fresh)
}

func TestC09Corpus(t *testing.T) { runCorpusPhase(t, "C09", "C09fresh") }

func TestC09Hist(t *testing.T) { runRegistered(t, "C09hist") }
func TestC09Rep(t *testing.T)  { runRegistered(t, "C09rep") }
