package main_test

// Core of the verification harness: decision entry points, statistics,
// check registry (rapid run + replay), known-findings handling.
//
// The harness is the external test package of the service: it is compiled together with a fresh copy of
// /repo/httpClient/main.go, and export_test.go + h_access_test.go put the production registries `funcs`,
// `biasListeners`, `biases` and the handlers `decideHandler`, `functionsHandler` in scope.

import (
	"bytes"
	"encoding/binary"
	"encoding/json"
	"flag"
	"fmt"
	"hash/fnv"
	"io"
	"log"
	"os"
	"runtime/debug"
	"sort"
	"strconv"
	"strings"
	"sync"
	"syscall"
	"testing"
	"time"

	"github.com/Azbesciak/RealDecisionMaker/lib/model"
	"github.com/Azbesciak/RealDecisionMaker/lib/utils"
	"github.com/gin-gonic/gin"
	"pgregory.net/rapid"
)

type M = map[string]interface{}
type L = []interface{}

// ---------------------------------------------------------------- setup

var setupOnce sync.Once

func setup() {
	setupOnce.Do(func() {
		gin.SetMode(gin.ReleaseMode)
		log.SetOutput(io.Discard)
	})
}

// ---------------------------------------------------------------- decide

type Outcome struct {
	OK   bool   `json:"ok"`
	Body string `json:"body,omitempty"` // JSON of DecisionMakerChoice when OK
	Err  string `json:"err,omitempty"`
}

// decideWith decodes the body exactly as the HTTP handler does
// (encoding/json into model.DecisionMaker) and calls MakeDecision with the
// production registries and the given bias map.
func decideWith(body []byte, bm *model.BiasMap) (out Outcome) {
	setup()
	var dm model.DecisionMaker
	if err := json.Unmarshal(body, &dm); err != nil {
		return Outcome{Err: "bind: " + err.Error()}
	}
	return decideDM(&dm, bm)
}

// Calls into the code under test are bracketed by sutEnter / sutLeave, so that the per-case watchdog can tell a
// decision that does not return (a violation of every property: the request is never answered) from an oracle
// of the harness that is too slow (inconclusive).
var sutMu sync.Mutex
var sutCalls = map[int64]time.Time{}
var sutNext int64

func sutEnter() int64 {
	sutMu.Lock()
	defer sutMu.Unlock()
	sutNext++
	sutCalls[sutNext] = time.Now()
	return sutNext
}

func sutLeave(id int64) {
	sutMu.Lock()
	delete(sutCalls, id)
	sutMu.Unlock()
}

// sutBlockedFor returns how long the oldest call into the code under test has been running (0: none in flight).
func sutBlockedFor() time.Duration {
	sutMu.Lock()
	defer sutMu.Unlock()
	var d time.Duration
	for _, t0 := range sutCalls {
		if x := time.Since(t0); x > d {
			d = x
		}
	}
	return d
}

func decideDM(dm *model.DecisionMaker, bm *model.BiasMap) (out Outcome) {
	defer sutLeave(sutEnter())
	defer func() {
		if e := recover(); e != nil {
			out = Outcome{Err: fmt.Sprint(e)}
		}
	}()
	res := dm.MakeDecision(funcs, biasListeners, bm, utils.RandomBasedSeedValueGenerator)
	b, err := json.Marshal(res)
	if err != nil {
		return Outcome{Err: "marshal: " + err.Error()}
	}
	return Outcome{OK: true, Body: string(b)}
}

func decide(body []byte) Outcome { return decideWith(body, &biases) }

func mustJSON(v interface{}) []byte {
	b, err := json.Marshal(v)
	if err != nil {
		panic("harness: cannot marshal: " + err.Error())
	}
	return b
}

// ---------------------------------------------------------------- response view

type RespEntry struct {
	Alternative struct {
		Id       string             `json:"id"`
		Criteria map[string]float64 `json:"criteria"`
	} `json:"alternative"`
	Evaluation         M        `json:"evaluation"`
	BetterThanOrSameAs []string `json:"betterThanOrSameAs"`
}

type RespBias struct {
	Name             string          `json:"name"`
	Disabled         bool            `json:"disabled"`
	ApplyProbability float64         `json:"applyProbability"`
	Props            json.RawMessage `json:"props"`
}

type Resp struct {
	Result []RespEntry `json:"result"`
	Biases []RespBias  `json:"biases"`
}

func parseResp(body string) *Resp {
	var r Resp
	if err := json.Unmarshal([]byte(body), &r); err != nil {
		panic("harness: response does not parse: " + err.Error() + " :: " + body)
	}
	return &r
}

func (r *Resp) entry(id string) *RespEntry {
	for i := range r.Result {
		if r.Result[i].Alternative.Id == id {
			return &r.Result[i]
		}
	}
	return nil
}

func (b *RespBias) propsNull() bool {
	s := strings.TrimSpace(string(b.Props))
	return s == "" || s == "null"
}

func (b *RespBias) propsMap() M {
	var m M
	if b.propsNull() {
		return nil
	}
	if err := json.Unmarshal(b.Props, &m); err != nil {
		return nil
	}
	return m
}

// ---------------------------------------------------------------- request view

type ReqView struct {
	M        M
	Method   string
	Criteria []CritView
	Known    []AltView
	Chose    []string
	MP       M
	Biases   []M
}

type CritView struct {
	Id       string
	Cost     bool
	HasRange bool
	Min, Max float64
}

type AltView struct {
	Id   string
	Vals map[string]float64
}

func num(v interface{}) float64 {
	switch x := v.(type) {
	case float64:
		return x
	case int:
		return float64(x)
	case int64:
		return float64(x)
	case json.Number:
		f, _ := x.Float64()
		return f
	case nil:
		return 0
	}
	panic(fmt.Sprintf("harness: not a number: %T %v", v, v))
}

func str(v interface{}) string {
	if v == nil {
		return ""
	}
	return v.(string)
}

func asM(v interface{}) M {
	if v == nil {
		return nil
	}
	if m, ok := v.(M); ok {
		return m
	}
	return nil
}

func asL(v interface{}) []interface{} {
	switch x := v.(type) {
	case nil:
		return nil
	case []interface{}:
		return x
	case []M:
		r := make([]interface{}, len(x))
		for i := range x {
			r[i] = x[i]
		}
		return r
	case []string:
		r := make([]interface{}, len(x))
		for i := range x {
			r[i] = x[i]
		}
		return r
	}
	return nil
}

func parseReqM(body []byte) M {
	var m M
	dec := json.NewDecoder(bytes.NewReader(body))
	dec.UseNumber() // keep 64-bit seeds exact
	if err := dec.Decode(&m); err != nil {
		panic("harness: request does not parse: " + err.Error())
	}
	return m
}

func viewReq(m M) *ReqView {
	v := &ReqView{M: m, Method: str(m["preferenceFunction"]), MP: asM(m["methodParameters"])}
	for _, c := range asL(m["criteria"]) {
		cm := c.(M)
		cv := CritView{Id: str(cm["id"]), Cost: str(cm["type"]) == "cost"}
		if r := asM(cm["valuesRange"]); r != nil {
			cv.HasRange = true
			cv.Min, cv.Max = num(r["min"]), num(r["max"])
		}
		v.Criteria = append(v.Criteria, cv)
	}
	for _, a := range asL(m["knownAlternatives"]) {
		am := a.(M)
		av := AltView{Id: str(am["id"]), Vals: map[string]float64{}}
		for k, x := range asM(am["criteria"]) {
			av.Vals[k] = num(x)
		}
		v.Known = append(v.Known, av)
	}
	for _, c := range asL(m["choseToMake"]) {
		v.Chose = append(v.Chose, c.(string))
	}
	for _, b := range asL(m["biases"]) {
		v.Biases = append(v.Biases, b.(M))
	}
	return v
}

func (v *ReqView) crit(id string) *CritView {
	for i := range v.Criteria {
		if v.Criteria[i].Id == id {
			return &v.Criteria[i]
		}
	}
	return nil
}

func (v *ReqView) alt(id string) *AltView {
	for i := range v.Known {
		if v.Known[i].Id == id {
			return &v.Known[i]
		}
	}
	return nil
}

func (v *ReqView) isChosen(id string) bool {
	for _, c := range v.Chose {
		if c == id {
			return true
		}
	}
	return false
}

func (v *ReqView) biasNames() []string {
	var r []string
	for _, b := range v.Biases {
		if d, ok := b["disabled"].(bool); ok && d {
			continue
		}
		r = append(r, str(b["name"]))
	}
	return r
}

func sortedKeys[V any](m map[string]V) []string {
	ks := make([]string, 0, len(m))
	for k := range m {
		ks = append(ks, k)
	}
	sort.Strings(ks)
	return ks
}

func deepCopyM(v interface{}) interface{} {
	switch x := v.(type) {
	case M:
		r := make(M, len(x))
		for k, e := range x {
			r[k] = deepCopyM(e)
		}
		return r
	case []interface{}:
		r := make([]interface{}, len(x))
		for i, e := range x {
			r[i] = deepCopyM(e)
		}
		return r
	case []M:
		r := make([]interface{}, len(x))
		for i, e := range x {
			r[i] = deepCopyM(e)
		}
		return r
	case []string:
		r := make([]interface{}, len(x))
		for i, e := range x {
			r[i] = e
		}
		return r
	}
	return v
}

// ---------------------------------------------------------------- statistics

type Stats struct {
	mu       sync.Mutex
	Counts   map[string]int64
	hashes   map[uint64]struct{}
	Samples  []json.RawMessage
	Known    map[string]int64
	KnownEx  map[string]string
	Warnings []string
}

var st = &Stats{Counts: map[string]int64{}, hashes: map[uint64]struct{}{}, Known: map[string]int64{}, KnownEx: map[string]string{}}

const maxSamples = 6

func (s *Stats) inc(label string) { s.add(label, 1) }
func (s *Stats) add(label string, n int64) {
	s.mu.Lock()
	s.Counts[label] += n
	s.mu.Unlock()
}
func (s *Stats) get(label string) int64 {
	s.mu.Lock()
	defer s.mu.Unlock()
	return s.Counts[label]
}

func hash64(parts ...string) uint64 {
	h := fnv.New64a()
	for _, p := range parts {
		h.Write([]byte(p))
		h.Write([]byte{0})
	}
	return h.Sum64()
}

// nontrivial records one distinct non-trivial case (by hash of its canonical encoding).
func (s *Stats) nontrivial(check string, canonical string) {
	h := hash64(check, canonical)
	s.mu.Lock()
	if _, ok := s.hashes[h]; !ok {
		s.hashes[h] = struct{}{}
		s.Counts["nontrivial:"+check]++
	}
	s.mu.Unlock()
}

func (s *Stats) sample(check string, c interface{}) {
	s.mu.Lock()
	defer s.mu.Unlock()
	k := "samples:" + check
	if s.Counts[k] >= 2 || len(s.Samples) >= maxSamples*4 {
		return
	}
	s.Counts[k]++
	s.Samples = append(s.Samples, mustJSON(M{"check": check, "case": c}))
}

func (s *Stats) known(id string, example string) {
	s.mu.Lock()
	s.Known[id]++
	if _, ok := s.KnownEx[id]; !ok {
		if len(example) > 1500 {
			example = example[:1500] + "..."
		}
		s.KnownEx[id] = example
	}
	s.mu.Unlock()
}

func (s *Stats) dump() {
	path := os.Getenv("VERIF_STATS")
	if path == "" {
		return
	}
	s.mu.Lock()
	defer s.mu.Unlock()
	out := M{"counts": s.Counts, "samples": s.Samples, "known": s.Known, "known_examples": s.KnownEx, "warnings": s.Warnings}
	_ = os.WriteFile(path, mustJSON(out), 0o644)
	buf := make([]byte, 0, 8*len(s.hashes))
	for h := range s.hashes {
		buf = binary.LittleEndian.AppendUint64(buf, h)
	}
	_ = os.WriteFile(path+".hashes", buf, 0o644)
}

// ---------------------------------------------------------------- known findings

type Finding struct {
	Id       string `json:"id"`
	Property string `json:"property"`
	Status   string `json:"status"` // open | fixed
	What     string `json:"what_fails"`
}

var openFindings = map[string]bool{}

func loadFindings() {
	path := os.Getenv("VERIF_KNOWN")
	if path == "" {
		path = "/verif/known_findings.json"
	}
	b, err := os.ReadFile(path)
	if err != nil {
		return
	}
	var f struct {
		Findings []Finding `json:"findings"`
	}
	if json.Unmarshal(b, &f) != nil {
		return
	}
	for _, x := range f.Findings {
		if x.Status == "open" {
			openFindings[x.Id] = true
		}
	}
}

// ---------------------------------------------------------------- check registry

// Fail describes one violated rule of one case.
type Fail struct {
	Rule   string `json:"rule"`
	Detail string `json:"detail"`
}

func failf(rule, format string, a ...interface{}) *Fail {
	d := fmt.Sprintf(format, a...)
	if len(d) > 4000 {
		d = d[:4000] + "..."
	}
	return &Fail{Rule: rule, Detail: d}
}

type regCheck struct {
	prop     string
	name     string
	weight   float64
	run      func(t *testing.T)
	property func(rt *rapid.T)
	replay   func(raw json.RawMessage) *Fail
}

var registry = map[string]*regCheck{}

// register declares a check: gen draws one case (any JSON-serialisable value)
// from rapid generators only; judge is a pure function of the case and the
// code under test and returns nil when every rule holds.
// countGenLabels counts the generator's class labels of a case (input-shape classes such as size=big, seedAbsent).
func countGenLabels(name string, c interface{}) {
	lc, ok := c.(interface{ genLabels() []string })
	if !ok {
		return
	}
	for _, l := range lc.genLabels() {
		if strings.HasPrefix(l, "vmode=") {
			continue
		}
		st.inc("gen:" + name + ":" + l)
	}
}

func register[C any](prop, name string, weight float64, gen func(t *rapid.T) C, judge func(c C) *Fail) {
	rc := &regCheck{prop: prop, name: name, weight: weight}
	rc.property = func(rt *rapid.T) {
		c := gen(rt)
		st.inc("evaluations:" + name)
		writeCurCase(prop, name, c)
		if f := judgeWatched(prop, name, c, judge); f != nil {
			writeReplay(prop, name, c, f)
			rt.Fatalf("VIOLATION-CANDIDATE property=%s check=%s rule=%s: %s", prop, name, f.Rule, f.Detail)
		}
	}
	rc.run = func(t *testing.T) {
		setRapidFlags(weight)
		rapid.Check(t, func(rt *rapid.T) {
			c := gen(rt)
			st.inc("evaluations:" + name)
			countGenLabels(name, c)
			writeCurCase(prop, name, c)
			if f := judgeWatched(prop, name, c, judge); f != nil {
				if os.Getenv("VERIF_SURVEY") != "" { // development aid: classify failures instead of stopping
					d := f.Detail
					if len(d) > 70 {
						d = d[:70]
					}
					key := "survey:" + name + ":" + f.Rule + ":" + d
					st.inc(key)
					st.known(key, string(mustJSON(c)))
					return
				}
				writeReplay(prop, name, c, f)
				rt.Fatalf("VIOLATION-CANDIDATE property=%s check=%s rule=%s: %s", prop, name, f.Rule, f.Detail)
			}
		})
	}
	rc.replay = func(raw json.RawMessage) *Fail {
		var c C
		if err := json.Unmarshal(raw, &c); err != nil {
			return failf("replay-decode", "%v", err)
		}
		return judge(c)
	}
	if _, dup := registry[name]; dup {
		panic("duplicate check " + name)
	}
	registry[name] = rc
}

// ---- run-level aggregates: a replayable case made of requests collected during the run

type AggCase struct {
	Reqs []string `json:"requests"`
}

var aggMu sync.Mutex
var aggStore = map[string][]string{}

func aggCollect(name, req string, max int) {
	aggMu.Lock()
	if len(aggStore[name]) < max {
		aggStore[name] = append(aggStore[name], req)
	}
	aggMu.Unlock()
}

func registerAggregate(prop, name string, judge func(c AggCase) *Fail) {
	registry[name] = &regCheck{prop: prop, name: name, replay: func(raw json.RawMessage) *Fail {
		var c AggCase
		if err := json.Unmarshal(raw, &c); err != nil {
			return failf("replay-decode", "%v", err)
		}
		return judge(c)
	}}
}

// runAggregate judges the collected requests as one case (only when at least min were collected).
func runAggregate(t *testing.T, prop, name string, min int, judge func(c AggCase) *Fail) {
	aggMu.Lock()
	c := AggCase{Reqs: append([]string{}, aggStore[name]...)}
	aggMu.Unlock()
	if len(c.Reqs) < min || t.Failed() || os.Getenv("VERIF_SURVEY") != "" {
		return
	}
	st.inc("evaluations:" + name)
	if f := judge(c); f != nil {
		writeReplay(prop, name, c, f)
		t.Fatalf("VIOLATION-CANDIDATE property=%s check=%s rule=%s: %s", prop, name, f.Rule, f.Detail)
	}
	st.nontrivial(name, strings.Join(c.Reqs, "|"))
}

// fuzzRegistered lets Go's coverage-guided fuzzer drive a registered rapid property (thorough tier only).
func fuzzRegistered(f *testing.F, name string) {
	rc, ok := registry[name]
	if !ok || rc.property == nil {
		f.Fatalf("check %s not registered", name)
	}
	f.Fuzz(rapid.MakeFuzz(rc.property))
}

// judgeWatched runs one judge call under a watchdog. A single case normally takes well under a second; if
// the code under test does not come back within the limit the case is saved as <prefix>-<check>-hang.json and
// the process exits with status 3 (the driver reports the run as inconclusive and names the file) instead of
// stalling until the run's overall time-out. Checks whose property is about answering (C20) have their own rule.
func judgeWatched[C any](prop, name string, c C, judge func(C) *Fail) *Fail {
	limit := time.Duration(envInt("VERIF_CASE_TIMEOUT_S", 120)) * time.Second
	done := make(chan *Fail, 1)
	go func() { done <- judge(c) }()
	select {
	case f := <-done:
		return f
	case <-time.After(limit):
		if d := sutBlockedFor(); d > limit*3/4 {
			// the time was spent inside MakeDecision / the handler, not in the oracle: the request is never answered
			writeReplayAs(prop, name, name+"-noanswer", c, failf("decision-returns", "a call into the decision maker has not returned for %v", d.Round(time.Second)))
			fmt.Printf("VIOLATION-CANDIDATE property=%s check=%s rule=decision-returns: a call into the decision maker has not returned for %v\n", prop, name, d.Round(time.Second))
			st.dump()
			os.Exit(4)
		}
		writeReplayAs(prop, name, name+"-hang", c, failf("case-does-not-return", "the case did not return within %v", limit))
		fmt.Printf("HANG property=%s check=%s: a single case did not return within %v\n", prop, name, limit)
		st.dump()
		os.Exit(3)
		return nil
	}
}

func runRegistered(t *testing.T, name string) {
	rc, ok := registry[name]
	if !ok {
		t.Fatalf("check %s not registered", name)
	}
	rc.run(t)
}

func envInt(name string, def int64) int64 {
	if s := os.Getenv(name); s != "" {
		if v, err := strconv.ParseInt(s, 10, 64); err == nil {
			return v
		}
	}
	return def
}

func setRapidFlags(weight float64) {
	base := envInt("VERIF_CHECKS", 300)
	n := int64(float64(base) * weight)
	if n < 1 {
		n = 1
	}
	_ = flag.Set("rapid.checks", strconv.FormatInt(n, 10))
	seed := envInt("VERIF_RAPID_SEED", 1)
	if seed == 0 {
		seed = 0x5eed
	}
	_ = flag.Set("rapid.seed", strconv.FormatInt(seed, 10))
	_ = flag.Set("rapid.nofailfile", "true")
	if os.Getenv("VERIF_SHRINKTIME") != "" {
		_ = flag.Set("rapid.shrinktime", os.Getenv("VERIF_SHRINKTIME"))
	}
}

type replayFile struct {
	Property string          `json:"property"`
	Check    string          `json:"check"`
	Rule     string          `json:"rule"`
	Detail   string          `json:"detail"`
	Case     json.RawMessage `json:"case"`
}

func writeReplay(prop, name string, c interface{}, f *Fail) { writeReplayAs(prop, name, name, c, f) }

func writeReplayAs(prop, name, fileTag string, c interface{}, f *Fail) {
	prefix := os.Getenv("VERIF_REPLAY_OUT")
	if prefix == "" {
		return
	}
	rf := replayFile{Property: prop, Check: name, Rule: f.Rule, Detail: f.Detail, Case: mustJSON(c)}
	b, _ := json.MarshalIndent(rf, "", " ")
	_ = os.WriteFile(prefix+"-"+fileTag+".json", b, 0o644)
}

// writeCurCase keeps the case being executed on disk (tmpfs) for checks where
// the code under test may kill the process (fatal stack overflow, fatal
// concurrent map write): the driver turns it into the replay of a crash.
var curCaseChecks = map[string]bool{}

func writeCurCase(prop, name string, c interface{}) {
	if !curCaseChecks[name] && os.Getenv("VERIF_CURCASE_ALL") == "" {
		return
	}
	path := os.Getenv("VERIF_CURCASE")
	if path == "" {
		return
	}
	rf := replayFile{Property: prop, Check: name, Rule: "process-died", Detail: "the test process died while executing this case", Case: mustJSON(c)}
	_ = os.WriteFile(path, mustJSON(rf), 0o644)
}

// TestReplay re-runs one saved case through the plain judge function,
// bypassing rapid. Schedule / map-order dependent failures are given
// VERIF_REPLAY_REPEAT executions.
func TestReplay(t *testing.T) {
	path := os.Getenv("VERIF_REPLAY")
	if path == "" {
		t.Skip("no VERIF_REPLAY")
	}
	b, err := os.ReadFile(path)
	if err != nil {
		t.Fatalf("cannot read replay: %v", err)
	}
	var rf replayFile
	if err := json.Unmarshal(b, &rf); err != nil {
		t.Fatalf("cannot parse replay: %v", err)
	}
	rc, ok := registry[rf.Check]
	if !ok {
		t.Fatalf("unknown check %q in replay", rf.Check)
	}
	rep := int(envInt("VERIF_REPLAY_REPEAT", 20))
	limit := time.Duration(envInt("VERIF_CASE_TIMEOUT_S", 120)) * time.Second
	for i := 0; i < rep; i++ {
		done := make(chan *Fail, 1)
		go func() { done <- rc.replay(rf.Case) }()
		var f *Fail
		select {
		case f = <-done:
		case <-time.After(limit):
			if d := sutBlockedFor(); d > limit*3/4 {
				f = failf("decision-returns", "a call into the decision maker has not returned for %v", d.Round(time.Second))
			} else {
				t.Fatalf("the replayed case did not return within %v (harness side): no verdict", limit)
			}
		}
		if f != nil {
			fmt.Printf("REPLAY-FAIL property=%s check=%s rule=%s: %s\n", rf.Property, rf.Check, f.Rule, f.Detail)
			t.Fatalf("replay reproduces the violation (execution %d)", i+1)
		}
	}
	fmt.Printf("REPLAY-PASS property=%s check=%s (%d executions)\n", rf.Property, rf.Check, rep)
}

func TestMain(m *testing.M) {
	setup()
	loadFindings()
	if v := envInt("VERIF_MAXSTACK", 0); v > 0 {
		debug.SetMaxStack(int(v))
	}
	if v := envInt("VERIF_RLIMIT_AS_MB", 0); v > 0 {
		// a request that makes the service allocate without bound must kill this process (and the server child,
		// which inherits the limit), not the machine
		lim := syscall.Rlimit{Cur: uint64(v) << 20, Max: uint64(v) << 20}
		_ = syscall.Setrlimit(syscall.RLIMIT_AS, &lim)
	}
	code := m.Run()
	theServer.stop()
	st.dump()
	os.Exit(code)
}
