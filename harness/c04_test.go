package main_test

// C04 — a utility ranking is exactly the order of the utilities.

import (
	"fmt"
	"math"
	"sort"
	"testing"

	"github.com/Azbesciak/RealDecisionMaker/lib/model"
	"pgregory.net/rapid"
)

type idVal struct {
	Id    string
	Value float64
	Links []string
}

// utilityOrderOracle checks order and link structure from the reported values.
func utilityOrderOracle(es []idVal) *Fail {
	// order: non-increasing value, equal values by ascending id
	for i := 1; i < len(es); i++ {
		a, b := es[i-1], es[i]
		if a.Value < b.Value {
			return failf("order-by-value", "entry %d (%s, %v) is ranked above entry %d (%s, %v) with a higher value", i-1, a.Id, a.Value, i, b.Id, b.Value)
		}
		if a.Value == b.Value && !(a.Id < b.Id) {
			return failf("tie-break-by-id", "equal values %v: %q listed before %q", a.Value, a.Id, b.Id)
		}
	}
	val := map[string]float64{}
	for _, e := range es {
		val[e.Id] = e.Value
	}
	for _, e := range es {
		// next lower distinct value
		next, has := 0.0, false
		for _, o := range es {
			if o.Value < e.Value && (!has || o.Value > next) {
				next, has = o.Value, true
			}
		}
		want := map[string]bool{}
		for _, o := range es {
			if o.Id == e.Id {
				continue
			}
			if o.Value == e.Value || (has && o.Value == next) {
				want[o.Id] = true
			}
		}
		got := map[string]bool{}
		for _, l := range e.Links {
			if got[l] {
				return failf("links-no-duplicates", "entry %s lists %s twice: %v", e.Id, l, e.Links)
			}
			got[l] = true
		}
		if fmt.Sprint(sortedKeys(want)) != fmt.Sprint(sortedKeys(got)) {
			return failf("links-exact", "entry %s (value %v): betterThanOrSameAs %v, expected same value + next lower value = %v; values %v", e.Id, e.Value, sortedKeys(got), sortedKeys(want), val)
		}
	}
	// reachability closure = all entries with value <= own
	adj := map[string][]string{}
	for _, e := range es {
		adj[e.Id] = e.Links
	}
	for _, e := range es {
		reach := map[string]bool{}
		stack := []string{e.Id}
		for len(stack) > 0 {
			x := stack[len(stack)-1]
			stack = stack[:len(stack)-1]
			for _, y := range adj[x] {
				if !reach[y] {
					reach[y] = true
					stack = append(stack, y)
				}
			}
		}
		delete(reach, e.Id)
		for _, o := range es {
			if o.Id == e.Id {
				continue
			}
			if (o.Value <= e.Value) != reach[o.Id] {
				return failf("reachability", "from %s (value %v) %s (value %v) reachable=%v", e.Id, e.Value, o.Id, o.Value, reach[o.Id])
			}
		}
	}
	return nil
}

func plateaus(es []idVal) (classes int, maxSize int) {
	cnt := map[float64]int{}
	for _, e := range es {
		cnt[e.Value]++
	}
	for _, n := range cnt {
		if n > maxSize {
			maxSize = n
		}
	}
	return len(cnt), maxSize
}

// ---- (a) component level: AlternativeResults.Ranking()

type C04CompCase struct {
	Ids    []string  `json:"ids"`
	Values []float64 `json:"values"`
}

func judgeC04Comp(c C04CompCase) *Fail {
	in := make(model.AlternativeResults, len(c.Ids))
	for i := range c.Ids {
		a := model.AlternativeWithCriteria{Id: c.Ids[i], Criteria: model.Weights{}}
		in[i] = *model.ValueAlternativeResult(&a, c.Values[i])
	}
	var rk *model.AlternativesRanking
	var perr interface{}
	func() {
		defer func() { perr = recover() }()
		rk = in.Ranking()
	}()
	if perr != nil {
		return failf("ranking-panics", "%v", perr)
	}
	if len(*rk) != len(c.Ids) {
		return failf("ranking-size", "got %d entries for %d inputs", len(*rk), len(c.Ids))
	}
	es := make([]idVal, len(*rk))
	seen := map[string]bool{}
	for i, e := range *rk {
		es[i] = idVal{Id: e.Alternative.Id, Value: e.Value(), Links: e.BetterThanOrSameAs}
		seen[e.Alternative.Id] = true
		// reported value = input rounded to 1e-8
		for j := range c.Ids {
			if c.Ids[j] == e.Alternative.Id && math.Abs(e.Value()-c.Values[j]) > 0.5e-8+1e-12*math.Abs(c.Values[j]) {
				return failf("rounded-value", "%s: input %v reported %v", c.Ids[j], c.Values[j], e.Value())
			}
		}
	}
	if len(seen) != len(c.Ids) {
		return failf("ranking-permutation", "result ids %v are not a permutation of the input", es)
	}
	if f := utilityOrderOracle(es); f != nil {
		return f
	}
	classes, mx := plateaus(es)
	if len(es) >= 3 && classes >= 2 && mx >= 2 {
		st.nontrivial("C04comp", string(mustJSON(c)))
		st.sample("C04comp", c)
	}
	return nil
}

func genC04Comp(t *rapid.T) C04CompCase {
	g := G{t}
	n := g.Int(1, 10)
	if g.Chance(1, 3) {
		n = g.Int(11, 40) // beyond the sizes where Go's sort happens to be stable
	}
	p := g.Perm(44)
	var c C04CompCase
	mode := g.Int(0, 4)
	base := []float64{}
	for i, k := 0, g.Int(1, 4); i < k; i++ {
		switch g.Int(0, 2) {
		case 0:
			base = append(base, float64(g.Int(-3, 6)))
		case 1:
			base = append(base, g.Unif(-10, 10))
		default:
			base = append(base, float64(g.Int(-8, 8))/8)
		}
	}
	for i := 0; i < n; i++ {
		c.Ids = append(c.Ids, fmt.Sprintf("a%02d", p[i]))
		var v float64
		switch mode {
		case 0: // all equal
			v = base[0]
		case 1: // pairwise distinct
			v = float64(i)*1.5 + base[0]
		case 2, 3: // plateaus
			v = base[g.Int(0, len(base)-1)]
		default: // coincide / separate only after the 1e-8 rounding
			v = base[g.Int(0, len(base)-1)] + g.PickF(0, 1e-9, 4e-9, -4e-9, 6e-9, -6e-9, 2e-8, -2e-8, 4.9e-9, 5.1e-9)
		}
		c.Values = append(c.Values, v)
	}
	if g.Rare(3) { // any values: utilities of magnitude 1e12 (the same multiset in another unit, exact in binary)
		for i := range c.Values {
			c.Values[i] *= float64(int64(1) << 40)
		}
	}
	// shuffle listing order
	q := g.Perm(n)
	ids, vals := make([]string, n), make([]float64, n)
	for i := range q {
		ids[i], vals[i] = c.Ids[q[i]], c.Values[q[i]]
	}
	c.Ids, c.Values = ids, vals
	return c
}

// ---- (b)+(c) API level, with permutation metamorphic relation

type C04ApiCase struct {
	Req       string `json:"request"`
	PermKnown []int  `json:"permKnown"`
	PermChose []int  `json:"permChose"`
}

func entriesOf(r *Resp) []idVal {
	es := make([]idVal, len(r.Result))
	for i, e := range r.Result {
		es[i] = idVal{Id: e.Alternative.Id, Value: num(e.Evaluation["value"]), Links: e.BetterThanOrSameAs}
	}
	return es
}

func permuted(xs []interface{}, p []int) []interface{} {
	out := make([]interface{}, len(xs))
	for i := range xs {
		out[i] = xs[p[i]]
	}
	return out
}

func judgeC04Api(c C04ApiCase) *Fail {
	body := []byte(c.Req)
	out := decide(body)
	m := parseReqM(body)
	v := viewReq(m)
	if !out.OK {
		st.inc("C04:rejected:" + v.Method)
		return nil
	}
	r := parseResp(out.Body)
	es := entriesOf(r)
	if f := utilityOrderOracle(es); f != nil {
		return f
	}
	classes, mx := plateaus(es)
	if len(es) >= 3 && classes >= 2 && mx >= 2 {
		st.nontrivial("C04api", c.Req)
		st.inc("C04:nontrivial:" + v.Method)
		st.sample("C04api", M{"request": m, "values": es})
	}
	// permuted listing (claimed without biases: a bias' own importance sums run over
	// the alternatives in listing order, so float noise could legitimately differ)
	if len(v.biasNames()) > 0 {
		// behind biases the relation is judged only where the unchanged code is listing-order independent by
		// construction: biases that do not consume random numbers per alternative in listing order (everything but
		// fatigue) on requests whose numbers are exact in binary (importance sums run in listing order)
		// ... and only behind ONE bias: a second bias sums the values the first one produced (a mixed criterion's
		// thirds), which are no longer exact, and a tie between two importance sums is then broken by rounding noise
		if !exactRequest(v) || len(v.biasNames()) != 1 {
			return nil
		}
		for _, b := range v.biasNames() {
			if b == "fatigue" {
				return nil
			}
		}
		st.inc("C04:permutation-behind-biases-checked")
	}
	st.inc("C04:permutation-checked")
	m2 := deepCopyM(m).(M)
	m2["knownAlternatives"] = permuted(asL(m["knownAlternatives"]), c.PermKnown)
	m2["choseToMake"] = permuted(asL(m["choseToMake"]), c.PermChose)
	out2 := decide(mustJSON(m2))
	if !out2.OK {
		return failf("permutation-accepted", "request accepted, permuted listing rejected: %s", out2.Err)
	}
	es2 := entriesOf(parseResp(out2.Body))
	by := map[string]idVal{}
	for _, e := range es2 {
		by[e.Id] = e
	}
	for _, e := range es {
		o, ok := by[e.Id]
		if !ok {
			return failf("permutation-same-ids", "%s missing from the permuted run", e.Id)
		}
		if o.Value != e.Value {
			return failf("permutation-same-value", "%s: value %v, after permuting the listing %v", e.Id, e.Value, o.Value)
		}
		a, b := append([]string{}, e.Links...), append([]string{}, o.Links...)
		sort.Strings(a)
		sort.Strings(b)
		if fmt.Sprint(a) != fmt.Sprint(b) {
			return failf("permutation-same-links", "%s: links %v, after permuting the listing %v", e.Id, a, b)
		}
	}
	return nil
}

// exactRequest: every value, weight, capacity and declared range bound is a small multiple of 1/8.
func exactRequest(v *ReqView) bool {
	ok := func(x float64) bool { return x == math.Trunc(x*8)/8 && math.Abs(x) < 1e6 }
	for _, a := range v.Known {
		for _, x := range a.Vals {
			if !ok(x) {
				return false
			}
		}
	}
	for _, x := range numMap(v.MP["weights"]) {
		if !ok(x) {
			return false
		}
	}
	for _, c := range v.Criteria {
		if c.HasRange && (!ok(c.Min) || !ok(c.Max)) {
			return false
		}
	}
	return true
}

func genC04Api(t *rapid.T) C04ApiCase {
	g := G{t}
	o := GenOpts{Methods: utilityMethods, MaxBiases: 1, ValueMode: -1, TieHeavy: g.Chance(3, 4), MinAlts: 2, ValueScales: true}
	if g.Chance(1, 6) {
		o.MinAlts, o.MaxAlts = 12, 30 // many alternatives with ties
	}
	// biases whose random draws do not depend on the listing order of alternatives
	o.Biases = []string{"criteriaOmission", "preferenceReversal", "criteriaConcealment", "criteriaMixing", "anchoring"}
	if g.Chance(1, 2) {
		o.MaxBiases = 0
	} else if g.Chance(1, 2) {
		o.MaxBiases = 2
	}
	gr := genRequest(t, o)
	if g.Chance(1, 3) {
		nearTies(g, gr.Req, []float64{1e-9, -1e-9, 4e-9, 6e-9, -6e-9, 2e-8, -2e-8}, false)
		fixRanges(gr.Req)
	}
	nk, nc := len(asL(gr.Req["knownAlternatives"])), len(asL(gr.Req["choseToMake"]))
	return C04ApiCase{Req: string(mustJSON(gr.Req)), PermKnown: g.Perm(nk), PermChose: g.Perm(nc)}
}

func init() {
	register("C04", "C04comp", 2, genC04Comp, judgeC04Comp)
	register("C04", "C04api", 1, genC04Api, judgeC04Api)
}

func TestC04Comp(t *testing.T) { runRegistered(t, "C04comp") }
func TestC04Api(t *testing.T)  { runRegistered(t, "C04api") }
