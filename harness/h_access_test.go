package main_test

// The service's registries and handlers, reached through export_test.go. The names are the ones main.go uses,
// so the rest of the harness reads like code inside the service's package.

import (
	hc "github.com/Azbesciak/RealDecisionMaker/httpClient"
	"github.com/gin-gonic/gin"
)

var (
	funcs                        = hc.VerifHarnessFuncs()
	biasListeners                = hc.VerifHarnessBiasListeners()
	biases                       = hc.VerifHarnessBiases() // the same map the handler uses
	decreasingSatisfactionLevels = hc.VerifHarnessDecreasingLevels()
	increasingSatisfactionLevels = hc.VerifHarnessIncreasingLevels()
	referenceCriterionManager    = hc.VerifHarnessReferenceCriterionManager()
)

func decideHandler(c *gin.Context)    { hc.VerifHarnessDecideHandler(c) }
func functionsHandler(c *gin.Context) { hc.VerifHarnessFunctionsHandler(c) }
