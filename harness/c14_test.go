package main_test

// C14 — generated aspiration levels follow the documented series and end.

import (
	"fmt"
	"math"
	"testing"
	"time"

	satisfaction_levels "github.com/Azbesciak/RealDecisionMaker/lib/logic/limited-rationality/satisfaction-levels"
	"github.com/Azbesciak/RealDecisionMaker/lib/model"
	"github.com/Azbesciak/RealDecisionMaker/lib/utils"
	"pgregory.net/rapid"
)

type C14CompCase struct {
	Function   string     `json:"function"`
	Increasing bool       `json:"increasing"`
	Coef       float64    `json:"coefficient"`
	Min        float64    `json:"minValue"`
	Max        float64    `json:"maxValue"`
	Crit       []CritView `json:"criteria"`
	Cons       []SnapAlt  `json:"considered"`
	NotCons    []SnapAlt  `json:"notConsidered"`
}

func (c *C14CompCase) valid() bool {
	if !(c.Coef > 0 && c.Coef < 1) {
		return false
	}
	if c.Increasing {
		return c.Min >= 0 && c.Min <= 1 && c.Max >= 0 && c.Max <= 1
	}
	return c.Min > 0 && c.Min <= 1 && c.Max > 0 && c.Max <= 1
}

func toModelAlts(as []SnapAlt) []model.AlternativeWithCriteria {
	out := make([]model.AlternativeWithCriteria, len(as))
	for i, a := range as {
		w := model.Weights{}
		for k, v := range a.Vals {
			w[k] = v
		}
		out[i] = model.AlternativeWithCriteria{Id: a.Id, Criteria: w}
	}
	return out
}

func judgeC14Comp(c C14CompCase) *Fail {
	crit := make(model.Criteria, len(c.Crit))
	for i, cv := range c.Crit {
		crit[i] = model.Criterion{Id: cv.Id, Type: model.Gain}
		if cv.Cost {
			crit[i].Type = model.Cost
		}
		if cv.HasRange {
			crit[i].ValuesRange = &utils.ValueRange{Min: cv.Min, Max: cv.Max}
		}
	}
	dmp := &model.DecisionMakingParams{ConsideredAlternatives: toModelAlts(c.Cons), NotConsideredAlternatives: toModelAlts(c.NotCons), Criteria: crit}
	sources := decreasingSatisfactionLevels
	if c.Increasing {
		sources = increasingSatisfactionLevels
	}
	params := M{"coefficient": c.Coef, "minValue": c.Min, "maxValue": c.Max}
	var got []model.Weights
	var perr interface{}
	endless := false
	func() {
		defer func() { perr = recover() }()
		lv := satisfaction_levels.Find(c.Function, params, sources)
		lv.Initialize(dmp)
		for lv.HasNext() {
			if len(got) > seriesCap {
				endless = true
				return
			}
			got = append(got, lv.Next())
		}
	}()
	if !c.valid() {
		st.inc("C14:out-of-range-params")
		if perr == nil {
			return failf("out-of-range-rejected", "parameters coefficient=%v minValue=%v maxValue=%v (increasing=%v) are outside the documented ranges but were accepted (%d levels)", c.Coef, c.Min, c.Max, c.Increasing, len(got))
		}
		return nil
	}
	if perr != nil {
		return failf("valid-params-accepted", "documented parameters rejected: %v", perr)
	}
	if endless {
		return failf("series-ends", "series does not end within %d levels", seriesCap)
	}
	snap := &Snap{Crit: c.Crit, Cons: c.Cons, NotCons: c.NotCons}
	mg := newMargin()
	mp := M{"function": c.Function, "params": params}
	want, _, _ := refLevels(mp, c.Increasing, snap, mg)
	if mg.min < 1e-9 {
		st.inc("C14:ambiguous")
		return nil
	}
	if len(got) != len(want) {
		return failf("series-length", "%s increasing=%v coefficient=%v min=%v max=%v: %d levels, the documented series has %d", c.Function, c.Increasing, c.Coef, c.Min, c.Max, len(got), len(want))
	}
	for k := range want {
		for _, cv := range c.Crit {
			g, has := got[k][cv.Id]
			rlo, rhi := snap.rangeOf(cv.Id)
			// min + r x range: a few ulps of the bounds, no absolute floor (a range may be narrower than 1e-9)
			if !has || math.Abs(g-want[k][cv.Id]) > 1e-9*math.Max(math.Abs(rlo), math.Abs(rhi)) {
				return failf("threshold-at-fraction-of-range", "level %d criterion %s: threshold %v, documented series gives %v (levels %v)", k, cv.Id, g, want[k][cv.Id], want)
			}
			if k > 0 {
				lo, hi := snap.rangeOf(cv.Id)
				// the series of fractions r is strictly monotone; so are the thresholds wherever two successive ones
				// are further apart than the rounding of min + r x range (a range may be far narrower than its bounds)
				if hi > lo && math.Abs(want[k][cv.Id]-want[k-1][cv.Id]) > 2e-9*math.Max(math.Abs(lo), math.Abs(hi)) {
					up := c.Increasing != cv.Cost
					if (up && !(g > got[k-1][cv.Id])) || (!up && !(g < got[k-1][cv.Id])) {
						return failf("strictly-monotone", "criterion %s: level %d threshold %v after %v", cv.Id, k, g, got[k-1][cv.Id])
					}
				}
			}
		}
	}
	// labels
	rs, _ := refSeries(c.Function, c.Increasing, c.Coef, c.Min, c.Max, newMargin())
	if len(rs) >= 3 {
		st.nontrivial("C14comp", string(mustJSON(c)))
		st.sample("C14comp", M{"case": c, "levels": len(rs)})
	}
	if len(rs) == 0 {
		st.inc("C14:empty-series")
	}
	if len(rs) > 0 {
		last := rs[len(rs)-1]
		var next float64
		if c.Increasing {
			if c.Function == "idealMultipliedCoefficient" {
				next = (1+last)*(1+c.Coef) - 1
			} else {
				next = last + c.Coef
			}
			if next > 1 {
				st.inc("C14:clamped")
				next = 1
			}
			if next == c.Max {
				st.inc("C14:lands-on-bound")
			}
		} else {
			if c.Function == "idealMultipliedCoefficient" {
				next = last * c.Coef
			} else {
				next = last - c.Coef
			}
			if next < 0 {
				st.inc("C14:clamped")
				next = 0
			}
			if next == c.Min {
				st.inc("C14:lands-on-bound")
			}
		}
	}
	for _, cv := range c.Crit {
		if lo, hi := snap.rangeOf(cv.Id); lo == hi {
			st.inc("C14:degenerate-range")
			break
		}
	}
	return nil
}

func genC14Comp(t *rapid.T) C14CompCase {
	g := G{t}
	c := C14CompCase{Increasing: g.Bool()}
	if g.Bool() {
		c.Function = "idealMultipliedCoefficient"
	} else if c.Increasing {
		c.Function = "idealAdditiveCoefficient"
	} else {
		c.Function = "idealSubtractiveCoefficient"
	}
	if g.Chance(1, 2) { // dyadic: levels land exactly on bounds
		c.Coef = float64(g.Int(1, 7)) / 8
		c.Min = float64(g.Int(0, 8)) / 8
		c.Max = float64(g.Int(0, 8)) / 8
		if !c.Increasing && c.Min == 0 {
			c.Min = 0.125
		}
		if !c.Increasing && c.Max == 0 {
			c.Max = 1
		}
	} else {
		c.Coef = g.Unif(0.001, 0.999)
		c.Min = g.Unif(0.002, 1)
		c.Max = g.Unif(0.002, 1)
		if c.Increasing && g.Chance(1, 4) {
			c.Min = 0
		}
		if g.Chance(1, 4) {
			c.Max = 1
		}
		// keep the series short enough to iterate: bounded by generated size, not by time
		if !c.Increasing && c.Function == "idealMultipliedCoefficient" && c.Min < 0.01 {
			c.Min = 0.01
		}
	}
	if g.Chance(1, 10) { // out-of-range parameters must be rejected
		switch g.Int(0, 2) {
		case 0:
			c.Coef = g.PickF(0, 1, -0.25, 1.5)
		case 1:
			if c.Increasing {
				c.Min = g.PickF(-0.125, 1.5)
			} else {
				c.Min = g.PickF(0, -0.125, 1.5)
			}
		default:
			if c.Increasing {
				c.Max = g.PickF(-0.125, 1.5)
			} else {
				c.Max = g.PickF(0, -0.125, 1.5)
			}
		}
	}
	nc, na := g.Int(1, 4), g.Int(1, 5)
	mode := g.Int(0, vmCount-1)
	alts := make([]SnapAlt, na)
	for i := range alts {
		alts[i] = SnapAlt{Id: fmt.Sprintf("a%d", i+1), Vals: map[string]float64{}}
	}
	for j := 0; j < nc; j++ {
		cv := CritView{Id: fmt.Sprintf("c%d", j+1), Cost: g.Chance(2, 5)}
		mn, mx := math.Inf(1), math.Inf(-1)
		degenerate := g.Chance(1, 6)
		base := genValue(g, mode)
		// any criterion ranges: also ranges narrower than 1e-9 - the same values in a unit 2^40 times larger
		// (values of magnitude 1e-12), or packed next to one another (base + v x 2^-36)
		shape := 0
		if g.Rare(3) {
			shape = g.Int(1, 2)
		}
		tiny := 1 / float64(int64(1)<<40)
		for i := range alts {
			v := genValue(g, mode)
			if degenerate {
				v = base
			}
			switch shape {
			case 1:
				v *= tiny
			case 2:
				v = base + v/float64(int64(1)<<36)
			}
			alts[i].Vals[cv.Id] = v
			mn, mx = math.Min(mn, v), math.Max(mx, v)
		}
		if g.Chance(1, 3) {
			lo, hi := float64(g.Int(0, 2)), float64(g.Int(1, 2))
			if shape != 0 {
				lo, hi = lo*tiny, hi*tiny
			}
			cv.HasRange, cv.Min, cv.Max = true, mn-lo, mx+hi
		}
		c.Crit = append(c.Crit, cv)
	}
	k := g.Int(1, na)
	c.Cons, c.NotCons = alts[:k], alts[k:]
	return c
}

// ---- API level: the heuristics must use the series (aspect: increasing, satisfaction: decreasing)

func genC14Api(t *rapid.T) ReqCase {
	g := G{t}
	m := g.Pick("aspectEliminationHeuristic", "satisfactionHeuristic")
	var gr GenReq
	for i := 0; ; i++ {
		o := GenOpts{Methods: []string{m}, MaxAlts: 5, MaxCrit: 3, ValueMode: -1, FixedOrder: true}
		if g.Chance(1, 3) {
			o.MaxBiases = 2 // the series must follow the declared / observed ranges also behind biases
		}
		gr = genRequest(t, o)
		if str(asM(gr.Req["methodParameters"])["function"]) != "thresholds" || i > 20 {
			break
		}
	}
	if str(asM(gr.Req["methodParameters"])["function"]) == "thresholds" {
		mp := asM(gr.Req["methodParameters"])
		mp["function"] = "idealMultipliedCoefficient"
		mp["params"] = M{"coefficient": 0.5, "minValue": 0.25, "maxValue": 0.75}
	}
	if g.Chance(1, 5) {
		base := parseReqM(mustJSON(gr.Req))
		v := viewReq(base)
		for _, op := range mutOps {
			if op.name == "seriesCoefficientOutOfRange" && op.apply(g, base, v) {
				gr = GenReq{Req: base, Labels: append(gr.Labels, "mutant=seriesCoefficientOutOfRange")}
			}
		}
	}
	return mkReqCase(gr)
}

func judgeC14Api(c ReqCase) *Fail {
	v := viewReq(parseReqM([]byte(c.Req)))
	if mutantOf(c.Labels) != "" {
		st.inc("C14:api-out-of-range")
		if out := decide([]byte(c.Req)); out.OK {
			return failf("out-of-range-rejected", "series parameters %v are outside the documented ranges but the request is answered with a ranking", asM(v.MP["params"]))
		}
		return nil
	}
	st.inc("C14:api:" + v.Method)
	// "the series is ... finite": a generated series that never ends shows as a decision that never returns
	ended := make(chan struct{}, 1)
	go func() { decide([]byte(c.Req)); ended <- struct{}{} }()
	select {
	case <-ended:
	case <-time.After(30 * time.Second):
		return failf("series-ends", "%s with %v does not return within 30 s (normal latency is below 5 ms): the generated series does not end", v.Method, v.MP["params"])
	}
	var f *Fail
	if v.Method == "aspectEliminationHeuristic" {
		f = judgeC12(c)
	} else {
		f = judgeC13(c)
	}
	if f != nil {
		f.Rule = "api-uses-documented-series/" + f.Rule
		return f
	}
	rs, _ := refSeries(str(v.MP["function"]), v.Method == "aspectEliminationHeuristic", num(asM(v.MP["params"])["coefficient"]), num(asM(v.MP["params"])["minValue"]), num(asM(v.MP["params"])["maxValue"]), newMargin())
	if len(rs) >= 3 {
		st.nontrivial("C14api", c.Req)
	}
	return nil
}

func init() {
	register("C14", "C14comp", 2, genC14Comp, judgeC14Comp)
	register("C14", "C14api", 0.5, genC14Api, judgeC14Api)
}

func TestC14Comp(t *testing.T) { runRegistered(t, "C14comp") }
func TestC14Api(t *testing.T)  { runRegistered(t, "C14api") }
