package main_test

// C02 — decisions are repeatable.

import (
	"bufio"
	"encoding/json"
	"fmt"
	"os"
	"path/filepath"
	"sort"
	"sync"
	"testing"

	"pgregory.net/rapid"
)

type C02Case struct {
	Req    string   `json:"request"`
	Others []string `json:"others,omitempty"` // requests decided between the repetitions
	Labels []string `json:"labels,omitempty"`
}

const c02Reps = 6

func usesRandomOrBigMaps(v *ReqView) bool {
	if len(v.biasNames()) > 0 || len(v.Criteria) >= 3 {
		return true
	}
	if b, ok := v.MP["randomAlternativesOrdering"].(bool); ok && b {
		return true
	}
	return str(v.MP["drawResolution"]) == "random"
}

func sameOutcome(a, b Outcome) *Fail {
	if a.OK != b.OK {
		return failf("same-verdict", "first run ok=%v (%s) later run ok=%v (%s)", a.OK, a.Err, b.OK, b.Err)
	}
	if a.OK && a.Body != b.Body {
		return failf("byte-identical", "responses differ:\n first: %s\n later: %s", a.Body, b.Body)
	}
	return nil
}

func judgeC02(c C02Case) *Fail {
	body := []byte(c.Req)
	first := decide(body)
	for i := 1; i < c02Reps; i++ {
		if i-1 < len(c.Others) {
			decide([]byte(c.Others[i-1]))
		}
		if f := sameOutcome(first, decide(body)); f != nil {
			return f
		}
	}
	// nothing depends on goroutine scheduling: the request decided while other requests (and a second copy of
	// itself) are being decided at the same moment
	var wg sync.WaitGroup
	outs := make([]Outcome, 6)
	start := make(chan struct{})
	for i := range outs {
		wg.Add(1)
		go func(i int) { defer wg.Done(); <-start; outs[i] = decide(body) }(i)
	}
	for _, o := range c.Others {
		wg.Add(1)
		go func(o string) { defer wg.Done(); <-start; decide([]byte(o)) }(o)
	}
	close(start)
	wg.Wait()
	for _, o := range outs {
		if f := sameOutcome(first, o); f != nil {
			f.Rule = "concurrent-" + f.Rule
			return f
		}
	}
	v := viewReq(parseReqM(body))
	if first.OK {
		st.inc("C02:accepted")
		for _, l := range c.Labels {
			if l == "cancellingPair" {
				st.inc("gen:C02:cancellingPair-accepted")
			}
		}
		if usesRandomOrBigMaps(v) {
			st.nontrivial("C02", c.Req)
			st.sample("C02", M{"request": parseReqM(body)})
		}
	} else {
		st.inc("C02:rejected")
	}
	corpusAdd(c.Req, first)
	return nil
}

func c02Opts(g G) GenOpts {
	o := GenOpts{MaxBiases: 4, ValueMode: -1, AllowProb: true, AllowDisable: true, Superfluous: true, BiasLikeIds: true}
	if g.Chance(1, 4) {
		o.TieHeavy = true
	}
	if g.Chance(1, 15) { // larger problems (bigger maps, more iteration orders)
		o.MinAlts, o.MaxAlts, o.MaxCrit = 8, 16, 13
	}
	return o
}

func genC02(t *rapid.T) C02Case {
	g := G{t}
	gr := genRequest(t, c02Opts(g))
	if g.Chance(1, 5) && cancellingPair(gr.Req) {
		gr.Labels = append(gr.Labels, "cancellingPair")
	}
	valid := gr // hostile relatives are derived from the valid request
	if g.Chance(1, 4) {
		gr = mutateConstraint(t, gr)
	}
	c := C02Case{Req: string(mustJSON(gr.Req)), Labels: gr.Labels}
	for i, n := 0, g.Int(0, 3); i < n; i++ {
		switch g.Int(0, 3) {
		case 0: // a hostile relative of the request itself (same names and shapes: likely to meet it in any cache)
			c.Others = append(c.Others, string(mustJSON(commaMergedIds(g, valid.Req))))
		case 1:
			m, _ := typeMutate(g, valid.Req)
			c.Others = append(c.Others, string(mustJSON(m)))
		case 2:
			c.Others = append(c.Others, string(mustJSON(mutateConstraint(t, valid).Req)))
		default:
			c.Others = append(c.Others, string(mustJSON(genRequest(t, c02Opts(g)).Req)))
		}
	}
	return c
}

// cancellingPair: in every alternative the first two criteria get values of magnitude 2^40 that cancel in a
// signed sum (B and -B for two criteria of one type, B and B for a gain and a cost), next to the small values of
// the remaining criteria: (B + x) - B and (B - B) + x differ by far more than the 1e-8 rounding of the response,
// so any summation whose ORDER is not fixed (map iteration) shows in the bytes (answers seeded O02).
// Needs three criteria; declared ranges of the two criteria are widened so that the request stays valid.
func cancellingPair(req M) bool {
	cs := asL(req["criteria"])
	if len(cs) < 3 {
		return false
	}
	c0, c1 := asM(cs[0]), asM(cs[1])
	if c0 == nil || c1 == nil {
		return false
	}
	id0, _ := c0["id"].(string)
	id1, _ := c1["id"].(string)
	isCost := func(c M) bool { t, _ := c["type"].(string); return t == "cost" }
	big := float64(int64(1) << 40)
	second := -big
	if isCost(c0) != isCost(c1) {
		second = big
	}
	for _, c := range []M{c0, c1} {
		if vr := asM(c["valuesRange"]); vr != nil {
			vr["min"], vr["max"] = -2*big, 2*big
		}
	}
	for _, a := range asL(req["knownAlternatives"]) {
		cm := asM(asM(a)["criteria"])
		if cm == nil {
			return false
		}
		cm[id0], cm[id1] = big, second
	}
	return true
}

// commaMergedIds: the same problem with two criterion ids merged into one id containing the separator the
// Choquet capacities use ("c1,c2"); usually rejected, but it travels through the same parsers and caches.
func commaMergedIds(g G, req M) M {
	m := parseReqM(mustJSON(req))
	var plain interface{}
	json.Unmarshal(mustJSON(m), &plain)
	r := plain.(M)
	cs := asL(r["criteria"])
	if len(cs) < 2 {
		return r
	}
	c0, ok0 := cs[0].(M)
	c1, ok1 := cs[1].(M)
	if !ok0 || !ok1 {
		return r
	}
	a, _ := c0["id"].(string)
	b, _ := c1["id"].(string)
	merged := a + "," + b
	c0["id"] = merged
	r["criteria"] = append([]interface{}{cs[0]}, cs[2:]...)
	for _, alt := range asL(r["knownAlternatives"]) {
		am, _ := alt.(M)
		cm := asM(am["criteria"])
		if cm == nil {
			continue
		}
		cm[merged] = cm[a]
		delete(cm, a)
		delete(cm, b)
	}
	return r
}

// ---- corpus for the fresh-process phase

type corpusEntry struct {
	Req string  `json:"request"`
	Out Outcome `json:"outcome"`
}

var corpusMu sync.Mutex
var corpusW *bufio.Writer
var corpusN int

func corpusAdd(req string, out Outcome) {
	dir := os.Getenv("VERIF_BUILD_DIR")
	if dir == "" || os.Getenv("VERIF_PHASE") == "post" {
		return
	}
	corpusMu.Lock()
	defer corpusMu.Unlock()
	if corpusN >= int(envInt("VERIF_CORPUS_MAX", 4000)) {
		return
	}
	if corpusW == nil {
		f, err := os.Create(filepath.Join(dir, "corpus-"+os.Getenv("VERIF_SHARD")+".jsonl"))
		if err != nil {
			return
		}
		corpusW = bufio.NewWriterSize(f, 1<<20)
	}
	corpusN++
	corpusW.Write(mustJSON(corpusEntry{req, out}))
	corpusW.WriteByte('\n')
	corpusW.Flush()
}

func loadCorpus() []corpusEntry {
	dir := os.Getenv("VERIF_BUILD_DIR")
	files, _ := filepath.Glob(filepath.Join(dir, "corpus-*.jsonl"))
	sort.Strings(files)
	var out []corpusEntry
	for _, fn := range files {
		f, err := os.Open(fn)
		if err != nil {
			continue
		}
		sc := bufio.NewScanner(f)
		sc.Buffer(make([]byte, 1<<20), 1<<26)
		for sc.Scan() {
			var e corpusEntry
			if json.Unmarshal(sc.Bytes(), &e) == nil {
				out = append(out, e)
			}
		}
		f.Close()
	}
	return out
}

// C02fresh: a request decided in another process must give the recorded outcome here.
type C02FreshCase struct {
	Req      string  `json:"request"`
	Expected Outcome `json:"expected"`
}

func judgeC02Fresh(c C02FreshCase) *Fail {
	got := decide([]byte(c.Req))
	if f := sameOutcome(c.Expected, got); f != nil {
		f.Rule = "fresh-process-" + f.Rule
		return f
	}
	return nil
}

// TestC02Corpus is the post phase: run in K fresh processes, each deciding the
// whole corpus (written by the rapid phase's processes) in a different order.
func TestC02Corpus(t *testing.T) { runCorpusPhase(t, "C02", "C02fresh") }

// runCorpusPhase: this fresh process decides every request the rapid phase's processes recorded, in its own order,
// and must reproduce the recorded outcomes (whatever those processes had decided before).
func runCorpusPhase(t *testing.T, prop, check string) {
	if os.Getenv("VERIF_PHASE") != "post" {
		t.Skip("post phase only")
	}
	corpus := loadCorpus()
	k := int(envInt("VERIF_SHARD", 0))
	n := len(corpus)
	if n == 0 {
		t.Fatalf("empty corpus")
	}
	// deterministic order per process: stride walk
	strides := []int{1, 7919, 104729, 1299709, 15485863, 32452843, 49979687, 67867967}
	stride := strides[k%len(strides)]
	for stride%n == 0 && n > 1 {
		stride++
	}
	for gcd(stride, n) != 1 {
		stride++
	}
	idx := (k * 7) % n
	for i := 0; i < n; i++ {
		e := corpus[idx]
		idx = (idx + stride) % n
		st.inc("evaluations:" + check)
		c := C02FreshCase{Req: e.Req, Expected: e.Out}
		if f := judgeC02Fresh(c); f != nil {
			writeReplay(prop, check, c, f)
			t.Fatalf("VIOLATION-CANDIDATE property=%s check=%s rule=%s: %s", prop, check, f.Rule, f.Detail)
		}
	}
	// thorough: the same corpus through the real server process (one long-lived server; byte equality of 200 bodies)
	if prop == "C02" && os.Getenv("VERIF_TIER") == "thorough" && k == 0 && os.Getenv("VERIF_SERVER_BIN") != "" {
		if err := theServer.ensure(); err != nil {
			t.Fatalf("cannot start the server: %v", err)
		}
		for i, e := range corpus {
			if i%4 != 0 {
				continue
			}
			resp, err := theServer.post([]byte(e.Req))
			c := C02FreshCase{Req: e.Req, Expected: e.Out}
			var f *Fail
			switch {
			case err != nil:
				f = failf("server-answers", "no HTTP response: %v", err)
			case e.Out.OK && (resp.Code != 200 || resp.Body != e.Out.Body):
				f = failf("http-byte-identical", "in-process answer %s\n HTTP answer %d %s", e.Out.Body, resp.Code, resp.Body)
			case !e.Out.OK && resp.Code != 400:
				f = failf("http-same-verdict", "rejected in-process (%s) but HTTP status %d", e.Out.Err, resp.Code)
			}
			if f != nil {
				writeReplay("C02", "C02fresh", c, f)
				t.Fatalf("VIOLATION-CANDIDATE property=C02 check=C02fresh rule=%s: %s", f.Rule, f.Detail)
			}
			st.inc("C02:http-server-cases")
		}
	}
	st.add(prop+":fresh-process-cases", int64(n))
	fmt.Printf("%s corpus process %d: %d cases identical\n", prop, k, n)
}

func gcd(a, b int) int {
	for b != 0 {
		a, b = b, a%b
	}
	return a
}

func init() {
	register("C02", "C02", 1, genC02, judgeC02)
	register("C02", "C02fresh", 0.01, func(t *rapid.T) C02FreshCase {
		gr := genRequest(t, c02Opts(G{t}))
		b := mustJSON(gr.Req)
		return C02FreshCase{Req: string(b), Expected: decide(b)}
	}, judgeC02Fresh)
}

func TestC02(t *testing.T) { runRegistered(t, "C02") }
