package main_test

// C03 — utility methods report the value of their defining formula.

import (
	"math"
	"sort"
	"strings"
	"testing"

	"pgregory.net/rapid"
)

func choquetKey(ids []string) string {
	s := append([]string{}, ids...)
	sort.Strings(s)
	return strings.Join(s, ",")
}

// refChoquet: sum over ascending-sorted values of (v(k)-v(k-1)) x capacity of
// the suffix set, v(0)=0, values within eps of a group's first value tied.
// minGap returns the smallest distance of any comparison to the eps boundary.
func refChoquet(vals map[string]float64, mu map[string]float64, eps float64) (total float64, minMargin float64, ok bool) {
	type kv struct {
		k string
		v float64
	}
	var xs []kv
	for _, k := range sortedKeys(vals) {
		xs = append(xs, kv{k, vals[k]})
	}
	sort.SliceStable(xs, func(i, j int) bool { return xs[i].v < xs[j].v })
	minMargin = math.Inf(1)
	prev := 0.0
	n := len(xs)
	for i := 0; i < n; {
		cur := xs[i].v
		j := i + 1
		for ; j < n; j++ {
			d := math.Abs(cur - xs[j].v)
			if eps >= 0 {
				minMargin = math.Min(minMargin, math.Abs(d-eps))
			}
			if !(d <= eps) {
				break
			}
		}
		var ids []string
		for x := i; x < n; x++ {
			ids = append(ids, xs[x].k)
		}
		m, has := mu[choquetKey(ids)]
		if !has {
			return 0, 0, false
		}
		total += m * (cur - prev)
		prev = cur
		i = j
	}
	return total, minMargin, true
}

func round8(x float64) float64 { return math.Round(x*1e8) / 1e8 }

func judgeC03(c ReqCase) *Fail {
	body := []byte(c.Req)
	out := decide(body)
	v := viewReq(parseReqM(body))
	if !out.OK {
		st.inc("C03:rejected:" + v.Method)
		return nil
	}
	st.inc("C03:accepted:" + v.Method)
	r := parseResp(out.Body)
	nontrivial := false
	for _, e := range r.Result {
		vals := e.Alternative.Criteria
		ids := sortedKeys(vals)
		reported := num(e.Evaluation["value"])
		var want, scale float64
		switch v.Method {
		case "weightedSum":
			w, cost, ok := finalWeights(v, r, ids)
			if !ok {
				return failf("params-reconstruct", "cannot reconstruct the weight of every final criterion %v from request and reports", ids)
			}
			defect, defectScale := 0.0, 0.0
			for _, id := range ids {
				sv := vals[id]
				if cost[id] {
					sv = -sv
				}
				want += w[id] * sv
				defect += sv
				defectScale += math.Abs(sv)
				scale += math.Abs(w[id] * sv)
				if w[id] != 1 {
					nontrivial = nontrivial || len(ids) >= 2
				}
			}
			tol := 1e-8 + 1e-12*scale
			if math.Abs(reported-want) > tol {
				if openFindings["D10"] && math.Abs(reported-round8(defect)) <= 1e-8+1e-12*defectScale {
					st.known("D10", c.Req)
					continue
				}
				return failf("weighted-sum-formula", "alternative %s: reported %v, sum of weight x signed value = %v (weights %v, values %v)", e.Alternative.Id, reported, want, w, vals)
			}
		case "owa":
			w, _, ok := finalWeights(v, r, ids)
			if !ok {
				return failf("params-reconstruct", "cannot reconstruct the weight of every final criterion %v", ids)
			}
			var ws, vs []float64
			for _, id := range ids {
				ws = append(ws, w[id])
				vs = append(vs, vals[id])
			}
			sort.Float64s(ws)
			sort.Float64s(vs)
			for i := range ws {
				want += ws[i] * vs[i]
				scale += math.Abs(ws[i] * vs[i])
			}
			if len(ids) >= 2 && vs[0] != vs[len(vs)-1] && ws[0] != ws[len(ws)-1] {
				nontrivial = true
			}
			if math.Abs(reported-want) > 1e-8+1e-12*scale {
				return failf("owa-formula", "alternative %s: reported %v, sorted weights . sorted values = %v (weights %v values %v)", e.Alternative.Id, reported, want, ws, vs)
			}
		case "choquetIntegral":
			mu := map[string]float64{}
			for k, x := range numMap(v.MP["weights"]) {
				mu[choquetKey(strings.Split(k, ","))] = x
			}
			got, margin, ok := refChoquet(vals, mu, 1e-5)
			if !ok {
				st.inc("C03:choquet-capacity-unobservable")
				continue
			}
			if margin < 1e-9 {
				st.inc("C03:ambiguous")
				continue
			}
			want = got
			for _, id := range ids {
				scale = math.Max(scale, math.Abs(vals[id]))
			}
			if math.Abs(reported-want) > 1e-8+1e-12*scale {
				return failf("choquet-formula", "alternative %s: reported %v, Choquet integral (1e-5 tie grouping) = %v (values %v)", e.Alternative.Id, reported, want, vals)
			}
			// plain textbook sum when all distinct values are well separated
			sep := true
			var vs []float64
			for _, id := range ids {
				vs = append(vs, vals[id])
			}
			sort.Float64s(vs)
			for i := 1; i < len(vs); i++ {
				if d := vs[i] - vs[i-1]; d != 0 && d <= 1e-4 {
					sep = false
				}
			}
			if sep {
				plain, _, _ := refChoquet(vals, mu, 0)
				if math.Abs(reported-plain) > 1e-8+1e-12*scale {
					return failf("choquet-textbook", "alternative %s: reported %v, textbook Choquet integral = %v (values %v)", e.Alternative.Id, reported, plain, vals)
				}
				st.inc("C03:choquet-textbook-checked")
			}
			if len(ids) >= 2 && vs[0] != vs[len(vs)-1] {
				// non-additive capacity?
				for _, a := range ids {
					for _, b := range ids {
						if a < b && mu[choquetKey([]string{a, b})] != mu[a]+mu[b] {
							nontrivial = true
						}
					}
				}
			}
		}
	}
	if nontrivial {
		st.nontrivial("C03", c.Req)
		st.inc("C03:nontrivial:" + v.Method)
		if len(v.biasNames()) > 0 {
			st.inc("C03:nontrivial-with-bias:" + v.Method)
		}
		st.sample("C03:"+v.Method, M{"request": parseReqM(body), "response": parseReqM([]byte(out.Body))})
	}
	return nil
}

// nearTies perturbs the request: some values become a copy of another value of
// the same alternative (or of another alternative on the same criterion) plus a delta.
func nearTies(g G, req M, deltas []float64, within bool) {
	as := asL(req["knownAlternatives"])
	n := g.Int(1, 3)
	for i := 0; i < n; i++ {
		a := as[g.Int(0, len(as)-1)].(M)["criteria"].(M)
		ks := sortedKeys(a)
		if within {
			if len(ks) < 2 {
				return
			}
			src, dst := ks[g.Int(0, len(ks)-1)], ks[g.Int(0, len(ks)-1)]
			if src != dst {
				a[dst] = num(a[src]) + deltas[g.Int(0, len(deltas)-1)]
			}
		} else {
			if len(as) < 2 {
				return
			}
			b := as[g.Int(0, len(as)-1)].(M)["criteria"].(M)
			k := ks[g.Int(0, len(ks)-1)]
			a[k] = num(b[k]) + deltas[g.Int(0, len(deltas)-1)]
		}
	}
}

// fixRanges widens declared ranges so that they still contain the values.
func fixRanges(req M) {
	for _, c := range asL(req["criteria"]) {
		cm := c.(M)
		vr := asM(cm["valuesRange"])
		if vr == nil {
			continue
		}
		id := str(cm["id"])
		for _, a := range asL(req["knownAlternatives"]) {
			x := num(a.(M)["criteria"].(M)[id])
			if x < num(vr["min"]) {
				vr["min"] = x
			}
			if x > num(vr["max"]) {
				vr["max"] = x
			}
		}
		if num(vr["max"]) <= num(vr["min"]) {
			vr["max"] = num(vr["min"]) + 1
		}
	}
}

func genC03(t *rapid.T) ReqCase {
	g := G{t}
	m := g.Pick(utilityMethods...)
	o := GenOpts{Methods: []string{m}, MaxBiases: 2, ValueMode: -1, Superfluous: true, BigTiers: true, ValueScales: true}
	if m == "choquetIntegral" {
		o.Biases = []string{"criteriaOmission", "preferenceReversal", "fatigue", "anchoring"}
	}
	if g.Chance(1, 2) {
		o.MaxBiases = 0
	}
	gr := genRequest(t, o)
	if g.Chance(1, 10) {
		// "any real weights and values": un-normalised magnitudes (values up to 1e12, utilities beyond 2^63 * 1e-8)
		f := g.PickF(1e6, 1e9, 1e11, 1e12)
		for _, a := range asL(gr.Req["knownAlternatives"]) {
			cm := a.(M)["criteria"].(M)
			for _, k := range sortedKeys(cm) {
				cm[k] = num(cm[k]) * f
			}
		}
		for _, cr := range asL(gr.Req["criteria"]) {
			if vr := asM(cr.(M)["valuesRange"]); vr != nil {
				vr["min"], vr["max"] = num(vr["min"])*f, num(vr["max"])*f
				if num(vr["max"]) <= num(vr["min"]) {
					delete(cr.(M), "valuesRange")
				}
			}
		}
		gr.Labels = append(gr.Labels, "hugeValues")
		return mkReqCase(gr)
	}
	if m == "choquetIntegral" && g.Chance(1, 2) {
		nearTies(g, gr.Req, []float64{5e-6, -5e-6, 2e-5, -2e-5, 9e-6, 1.1e-5}, true)
		fixRanges(gr.Req)
		gr.Labels = append(gr.Labels, "nearTie1e-5")
	}
	return mkReqCase(gr)
}

func init() { register("C03", "C03", 1, genC03, judgeC03) }

func TestC03(t *testing.T) { runRegistered(t, "C03") }
