package main_test

import (
	"fmt"
	"os"
	"testing"
)

// development aid: decide one request file and print the response
func TestDevDecide(t *testing.T) {
	p := os.Getenv("VERIF_DEV_REQ")
	if p == "" {
		t.Skip()
	}
	b, _ := os.ReadFile(p)
	out := decide(b)
	fmt.Println(out.OK, out.Err)
	fmt.Println(out.Body)
}
