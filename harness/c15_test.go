package main_test

// C15 — criteria omission removes exactly the requested share, weakest first.

import (
	"fmt"
	"math"
	"sort"
	"strings"
	"testing"

	"pgregory.net/rapid"
)

// splitCount: k = floor(n*ratio) clamped to [min, max] (absent min = 0, absent max = no limit).
func splitCount(props M, n int) int {
	k := int(math.Floor(float64(n) * num(props["ratio"])))
	if v, ok := props["min"]; ok && k < int(num(v)) {
		k = int(num(v))
	} else if v, ok := props["max"]; ok && k > int(num(v)) {
		k = int(num(v))
	}
	return k
}

// refImportance: the method's documented importance of every criterion of state s.
// exactImportance: the documented importance is a number of the request itself (a weight or k), not the result of
// floating-point arithmetic, so two importances are compared exactly however close they are.
func exactImportance(method string) bool {
	return method == "majorityHeuristic" || method == "aspectEliminationHeuristic" || method == "electreIII"
}

func refImportance(v *ReqView, s *Snap) (map[string]float64, bool) {
	imp := map[string]float64{}
	sumVals := func(id string) float64 {
		t := 0.0
		for _, a := range s.Cons {
			t += a.Vals[id]
		}
		return t
	}
	switch v.Method {
	case "weightedSum":
		w := numMap(v.MP["weights"])
		for _, c := range s.Crit {
			// sum of weight x value over the considered alternatives
			t := 0.0
			for _, a := range s.Cons {
				t += w[c.Id] * a.Vals[c.Id]
			}
			imp[c.Id] = t
		}
	case "owa", "satisfactionHeuristic":
		for _, c := range s.Crit {
			imp[c.Id] = sumVals(c.Id)
		}
	case "majorityHeuristic", "aspectEliminationHeuristic":
		w := numMap(v.MP["weights"])
		for _, c := range s.Crit {
			imp[c.Id] = w[c.Id]
		}
	case "electreIII":
		ec := asM(v.MP["electreCriteria"])
		for _, c := range s.Crit {
			imp[c.Id] = num(asM(ec[c.Id])["k"])
		}
	case "choquetIntegral":
		mu := map[string]float64{}
		for k, x := range numMap(v.MP["weights"]) {
			mu[choquetKey(strings.Split(k, ","))] = x
		}
		for _, c := range s.Crit {
			imp[c.Id] = 0
		}
		for _, a := range s.Cons {
			type kv struct {
				k string
				v float64
			}
			var xs []kv
			for _, k := range sortedKeys(a.Vals) {
				xs = append(xs, kv{k, a.Vals[k]})
			}
			sort.SliceStable(xs, func(i, j int) bool { return xs[i].v < xs[j].v })
			prev := 0.0
			for i := 0; i < len(xs); {
				cur := xs[i].v
				j := i + 1
				for ; j < len(xs) && math.Abs(cur-xs[j].v) <= 1e-5; j++ {
				}
				var ids []string
				for x := i; x < len(xs); x++ {
					ids = append(ids, xs[x].k)
				}
				m, has := mu[choquetKey(ids)]
				if !has {
					return nil, false
				}
				for _, id := range ids {
					imp[id] += m * (cur - prev)
				}
				prev = cur
				i = j
			}
		}
	}
	return imp, true
}

func filterKeys(m M, om map[string]bool) M {
	out := M{}
	for k, x := range m {
		keep := true
		for _, part := range strings.Split(k, ",") {
			if om[part] {
				keep = false
			}
		}
		if keep {
			out[k] = x
		}
	}
	return out
}

// reducedRequest deletes the omitted criteria from criteria, values and parameters and lists the kept ones in `keptOrder`.
func reducedRequest(m M, om map[string]bool, keptOrder []string) M {
	red := deepCopyM(m).(M)
	red["biases"] = []interface{}{}
	by := map[string]interface{}{}
	for _, c := range asL(red["criteria"]) {
		by[str(c.(M)["id"])] = c
	}
	var nc []interface{}
	for _, id := range keptOrder {
		nc = append(nc, by[id])
	}
	red["criteria"] = nc
	for _, a := range asL(red["knownAlternatives"]) {
		am := a.(M)
		am["criteria"] = filterKeys(asM(am["criteria"]), om)
	}
	mp := asM(red["methodParameters"])
	if w := asM(mp["weights"]); w != nil {
		mp["weights"] = filterKeys(w, om)
	}
	if w := asM(mp["electreCriteria"]); w != nil {
		mp["electreCriteria"] = filterKeys(w, om)
	}
	if p := asM(mp["params"]); p != nil {
		if ths := asL(p["thresholds"]); ths != nil {
			var nt []interface{}
			for _, th := range ths {
				nt = append(nt, filterKeys(asM(th), om))
			}
			p["thresholds"] = nt
		}
	}
	return red
}

func judgeC15(c ReqCase) *Fail {
	body := []byte(c.Req)
	m := parseReqM(body)
	v := viewReq(m)
	real := realBiases(v)
	if len(real) != 1 || str(real[0]["name"]) != "criteriaOmission" {
		return failf("harness-shape", "C15 case must hold exactly one omission")
	}
	props := asM(real[0]["props"])
	out, rec := decideProbed(body, false, false)
	if !out.OK {
		return failf("omission-accepted", "%s with a valid criteria omission %v is rejected: %s", v.Method, props, out.Err)
	}
	r := parseResp(out.Body)
	before, after := rec.Snaps[0], rec.Snaps[1]
	n := len(before.Crit)
	k := splitCount(props, n)
	omitted := omittedCriteria(&r.Biases[1])
	// (a) count and membership
	if len(omitted) != k {
		return failf("omits-floor-n-ratio-clamped", "n=%d ratio=%v min=%v max=%v: %d criteria reported omitted %v, expected %d", n, props["ratio"], props["min"], props["max"], len(omitted), omitted, k)
	}
	om := setOf(omitted)
	if len(om) != len(omitted) {
		return failf("omitted-distinct", "omitted criteria are not distinct: %v", omitted)
	}
	for _, id := range omitted {
		if before.crit(id) == nil {
			return failf("omitted-are-declared", "reported omitted criterion %q is not among the declared criteria %v", id, before.critIds())
		}
	}
	// (b) restriction to the kept criteria, values unchanged
	var kept []string
	for _, cv := range before.Crit {
		if !om[cv.Id] {
			kept = append(kept, cv.Id)
		}
	}
	if !sameSet(kept, after.critIds()) {
		return failf("kept-criteria", "criteria after omission %v, expected %v minus %v", after.critIds(), before.critIds(), omitted)
	}
	for _, a := range after.all() {
		if !sameSet(sortedKeys(a.Vals), kept) {
			return failf("values-restricted-to-kept", "alternative %s carries values for %v, kept criteria are %v", a.Id, sortedKeys(a.Vals), kept)
		}
		for _, id := range kept {
			if a.Vals[id] != before.alt(a.Id).Vals[id] {
				return failf("kept-values-unchanged", "(%s,%s) changed from %v to %v", a.Id, id, before.alt(a.Id).Vals[id], a.Vals[id])
			}
		}
	}
	for _, e := range r.Result {
		if !sameSet(sortedKeys(e.Alternative.Criteria), kept) {
			return failf("result-restricted-to-kept", "result entry %s carries %v, kept criteria are %v", e.Alternative.Id, sortedKeys(e.Alternative.Criteria), kept)
		}
	}
	// (c) equivalence with the reduced request
	distinctW := true
	if v.Method == "aspectEliminationHeuristic" {
		seen := map[float64]bool{}
		for _, cv := range before.Crit {
			w := num(asM(v.MP["weights"])[cv.Id])
			if seen[w] {
				distinctW = false
			}
			seen[w] = true
		}
	}
	if distinctW {
		red := reducedRequest(withoutProbes(m), om, after.critIds())
		out2 := decide(mustJSON(red))
		if !out2.OK {
			return failf("equals-reduced-request", "the request with the omitted criteria %v deleted is rejected: %s", omitted, out2.Err)
		}
		r2 := parseResp(out2.Body)
		if string(mustJSON(r.Result)) != string(mustJSON(r2.Result)) {
			return failf("equals-reduced-request", "decision differs from the decision for the request with criteria %v deleted:\n with omission %s\n reduced       %s", omitted, mustJSON(r.Result), mustJSON(r2.Result))
		}
		st.inc("C15:reduced-equivalence-checked:" + v.Method)
	}
	// (d) weakest / strongest against the documented importance
	ordering := str(props["ordering"])
	if ordering == "" {
		ordering = "weakest"
	}
	st.inc("C15:ordering=" + ordering)
	imp, ok := refImportance(v, before)
	allEqual := true
	if ok {
		scale := 1.0
		for _, x := range imp {
			scale = math.Max(scale, math.Abs(x))
		}
		tol := 1e-9 * scale
		if exactImportance(v.Method) {
			tol = 0
		}
		var first float64
		for i, id := range sortedKeys(imp) {
			if i == 0 {
				first = imp[id]
			} else if imp[id] != first {
				allEqual = false
			}
		}
		if ordering == "weakest" || ordering == "strongest" {
			for _, o := range omitted {
				for _, kp := range kept {
					if ordering == "weakest" && imp[o] > imp[kp]+tol {
						return failf("weakest-first", "omitted %s (importance %v) is more important than kept %s (%v); importances %v", o, imp[o], kp, imp[kp], imp)
					}
					if ordering == "strongest" && imp[o] < imp[kp]-tol {
						return failf("strongest-first", "omitted %s (importance %v) is less important than kept %s (%v); importances %v", o, imp[o], kp, imp[kp], imp)
					}
				}
			}
		}
	}
	// "taken from the front of the chosen ordering ... `strongest` is the exact reverse": with tie-free importances the
	// whole order is determined: omitted criteria then kept criteria, ascending (weakest) / descending (strongest)
	if ok && (ordering == "weakest" || ordering == "strongest") {
		seq := append(append([]string{}, omitted...), after.critIds()...)
		tieFree := true
		vals := map[float64]bool{}
		for _, id := range seq {
			if vals[imp[id]] {
				tieFree = false
			}
			vals[imp[id]] = true
		}
		scale := 1.0
		for _, x := range imp {
			scale = math.Max(scale, math.Abs(x))
		}
		if tieFree {
			st.inc("C15:full-order-checked")
			for i := 1; i < len(seq); i++ {
				a, b := imp[seq[i-1]], imp[seq[i]]
				if !exactImportance(v.Method) && math.Abs(a-b) <= 1e-9*scale {
					continue
				}
				if (ordering == "weakest" && a > b) || (ordering == "strongest" && a < b) {
					return failf("ordering-is-importance-order", "%s ordering lists %v (omitted first, then kept) with importances %v: %s before %s", ordering, seq, imp, seq[i-1], seq[i])
				}
			}
		}
	}
	for _, l := range c.Labels {
		if l == "superfluousParam" {
			st.inc("C15:superfluous-param")
		}
	}
	if n >= 3 && k >= 1 && k < n && !allEqual {
		st.nontrivial("C15", c.Req)
		st.inc("C15:nontrivial:" + v.Method)
		st.sample("C15", M{"request": withoutProbes(m), "omitted": omitted})
	}
	return nil
}

func genC15(t *rapid.T) ReqCase {
	g := G{t}
	o := GenOpts{MaxBiases: 1, MinBiases: 1, Biases: []string{"criteriaOmission"}, ValueMode: -1, Probes: true, Superfluous: true, MinCrit: 1, BigTiers: true, ValueScales: true}
	if g.Chance(1, 4) {
		o.TieHeavy = true // importance ties
	}
	if g.Chance(1, 2) {
		o.MinCrit = 3
	}
	return mkReqCase(genRequest(t, o))
}

// ---- (e) random orderings prefer the documented end, over many seeds

type C15StatCase struct {
	Method   string  `json:"method"`
	Ordering string  `json:"ordering"`
	NCrit    int     `json:"ncrit"`
	Seed0    int64   `json:"seed0"`
	N        int     `json:"n"`
	Vals     float64 `json:"val"`
	Mode     int     `json:"mode"` // 0: importances 1,4,16,..; 1: 0,1,2,.. (a criterion of importance exactly 0); 2: -1,0,1,..
}

func judgeC15Stat(c C15StatCase) *Fail {
	ids := []string{"c1", "c2", "c3", "c4"}[:c.NCrit]
	w := M{}
	ec := M{}
	var crits []interface{}
	vals := M{}
	for i, id := range ids {
		wi := math.Pow(4, float64(i)) // 1, 4, 16, 64: weakest is c1, strongest the last
		if c.Mode == 1 {
			wi = float64(i)
		} else if c.Mode == 2 {
			wi = float64(i) - 1
		}
		w[id] = wi
		ec[id] = M{"k": math.Pow(4, float64(i))}
		crits = append(crits, M{"id": id, "type": "gain"})
		vals[id] = c.Vals
	}
	mp := M{"weights": w}
	if c.Method == "electreIII" {
		mp = M{"electreCriteria": ec} // k must be positive: always the 1,4,16 importances
	}
	if c.Method == "aspectEliminationHeuristic" {
		mp["function"] = "idealAdditiveCoefficient"
		mp["params"] = M{"coefficient": 0.5, "minValue": 0.25, "maxValue": 0.75}
	}
	req := M{
		"preferenceFunction": c.Method, "criteria": crits,
		"knownAlternatives": []interface{}{M{"id": "a", "criteria": vals}, M{"id": "b", "criteria": vals}},
		"choseToMake":       []interface{}{"a", "b"}, "methodParameters": mp,
	}
	weak, strong := 0, 0
	for j := 0; j < c.N; j++ {
		req["biases"] = []interface{}{M{"name": "criteriaOmission", "props": M{"ratio": 0.0, "min": 1, "max": 1, "ordering": c.Ordering, "randomSeed": c.Seed0 + int64(j)}}}
		out := decide(mustJSON(req))
		if !out.OK {
			return failf("omission-accepted", "valid request rejected: %s", out.Err)
		}
		om := omittedCriteria(&parseResp(out.Body).Biases[0])
		if len(om) != 1 {
			return failf("omits-floor-n-ratio-clamped", "min=max=1 but %v omitted", om)
		}
		if om[0] == ids[0] {
			weak++
		}
		if om[0] == ids[len(ids)-1] {
			strong++
		}
	}
	margin := 6 * math.Sqrt(float64(c.N))
	switch c.Ordering {
	case "weakestByProbability":
		if float64(weak-strong) < margin {
			return failf("weakest-by-probability-prefers-weak", "%s, %d criteria with ascending importances (mode %d): least important omitted first %d times, most important %d times over %d seeds", c.Method, c.NCrit, c.Mode, weak, strong, c.N)
		}
	case "strongestByProbability":
		if float64(strong-weak) < margin {
			return failf("strongest-by-probability-prefers-strong", "%s, %d criteria with ascending importances (mode %d): most important omitted first %d times, least important %d times over %d seeds", c.Method, c.NCrit, c.Mode, strong, weak, c.N)
		}
	case "random":
		// only "a permutation of the criteria" is claimed (checked per case by the relation check)
	}
	st.nontrivial("C15stat", fmt.Sprint(c))
	st.add("C15:stat-decisions", int64(c.N))
	st.sample("C15stat", M{"case": c, "weakest_first": weak, "strongest_first": strong})
	return nil
}

func genC15Stat(t *rapid.T) C15StatCase {
	g := G{t}
	return C15StatCase{
		Method:   g.Pick("majorityHeuristic", "aspectEliminationHeuristic", "electreIII"),
		Ordering: g.Pick("weakestByProbability", "strongestByProbability", "random"),
		NCrit:    g.Int(2, 4), Seed0: int64(g.Int(0, 1<<40)), N: 2000, Vals: float64(g.Int(1, 5)),
		Mode: g.Int(0, 2),
	}
}

func init() {
	register("C15", "C15", 1, genC15, judgeC15)
	register("C15", "C15stat", 0.002, genC15Stat, judgeC15Stat)
}

func TestC15(t *testing.T)     { runRegistered(t, "C15") }
func TestC15Stat(t *testing.T) { runRegistered(t, "C15stat") }
