package main_test

// Shared "one bias step" context, C16 (preference reversal) and C17 (fatigue).

import (
	"fmt"
	"math"
	"strings"
	"testing"

	"pgregory.net/rapid"
)

type stepCtx struct {
	v      *ReqView
	m      M
	out    Outcome
	r      *Resp
	rec    *Recorder
	idx    int // index of the target (= last) real bias
	name   string
	props  M
	rep    *RespBias
	first  *Snap
	before *Snap
	after  *Snap
}

// lastStep runs a fully probed request and returns the context of its last real bias.
func lastStep(body []byte, evalToo bool) (*stepCtx, *Fail) {
	m := parseReqM(body)
	v := viewReq(m)
	real := realBiases(v)
	if len(real) == 0 {
		return nil, failf("harness-shape", "no bias in the case")
	}
	out, rec := decideProbed(body, evalToo, true)
	c := &stepCtx{v: v, m: m, out: out, rec: rec, idx: len(real) - 1}
	c.name = str(real[c.idx]["name"])
	c.props = asM(real[c.idx]["props"])
	if c.props == nil {
		c.props = M{}
	}
	if !out.OK {
		return c, nil
	}
	c.r = parseResp(out.Body)
	if len(rec.Snaps) != len(real)+1 || len(c.r.Biases) != 2*len(real)+1 {
		return nil, failf("harness-probe-count", "expected %d snapshots and %d reports, got %d and %d", len(real)+1, 2*len(real)+1, len(rec.Snaps), len(c.r.Biases))
	}
	c.rep = &c.r.Biases[2*c.idx+1]
	c.first, c.before, c.after = rec.Snaps[0], rec.Snaps[c.idx], rec.Snaps[c.idx+1]
	return c, nil
}

// skipOverflow: the request is rejected because a preceding anchoring bias' documented exponential formula is not a finite float64.
func skipOverflow(x *stepCtx) bool {
	if !x.out.OK && strings.Contains(x.out.Err, "unsupported value") && expOverflowExpected(x.v, x.rec) {
		st.inc("skipped-exp-overflow")
		return true
	}
	return false
}

func sameCriteriaList(a, b *Snap) *Fail {
	if fmt.Sprint(a.Crit) != fmt.Sprint(b.Crit) {
		return failf("criteria-list-unchanged", "criteria changed from %v to %v", a.Crit, b.Crit)
	}
	return nil
}

func paramsUnchanged(a, b *Snap) *Fail {
	if a.ParamsFP != b.ParamsFP {
		return failf("method-parameters-unchanged", "method parameters changed:\n before %s\n after  %s", a.ParamsFP, b.ParamsFP)
	}
	return nil
}

func prefixNames(v *ReqView) []string {
	var n []string
	for _, b := range realBiases(v) {
		n = append(n, str(b["name"]))
	}
	return n
}

// stepRequest generates: 0..maxPrefix arbitrary biases, then the target bias, all probed.
func stepRequest(t *rapid.T, o GenOpts, target string, maxPrefix int) GenReq {
	g := G{t}
	s := &genState{g: g, o: o}
	methods := o.Methods
	if len(methods) == 0 {
		methods = allMethods
	}
	s.method = g.Pick(methods...)
	req := M{"preferenceFunction": s.method}
	s.genProblem(req)
	req["methodParameters"] = s.genMethodParams(req)
	var bs []interface{}
	bs = append(bs, M{"name": probeName})
	np := 0
	if maxPrefix > 0 && g.Chance(1, 2) {
		np = g.Int(1, maxPrefix)
	}
	for i := 0; i < np; i++ {
		name := g.Pick(allBiases...)
		bs = append(bs, M{"name": name, "props": s.genBiasProps(name, req)}, M{"name": probeName})
	}
	bs = append(bs, M{"name": target, "props": s.genBiasProps(target, req)}, M{"name": probeName})
	req["biases"] = bs
	req["biasApplyRandomSeed"] = g.Seed()
	if dropSeeds(g, req) > 0 {
		s.label("seedAbsent")
	}
	return GenReq{Req: req, Labels: s.labels}
}

// ---------------------------------------------------------------- C16

func judgeC16(c ReqCase) *Fail {
	x, f := lastStep([]byte(c.Req), false)
	if f != nil {
		return f
	}
	if skipOverflow(x) {
		return nil
	}
	if !x.out.OK {
		return failf("reversal-accepted", "%s with biases %v is rejected: %s", x.v.Method, prefixNames(x.v), x.out.Err)
	}
	if f := sameCriteriaList(x.before, x.after); f != nil {
		return f
	}
	if f := paramsUnchanged(x.before, x.after); f != nil {
		return f
	}
	n := len(x.before.Crit)
	k := splitCount(x.props, n)
	reps := asL(x.rep.propsMap()["reversedPreferenceCriteria"])
	if len(reps) != k {
		return failf("selects-floor-n-ratio-clamped", "n=%d ratio=%v min=%v max=%v: %d criteria reversed, expected %d", n, x.props["ratio"], x.props["min"], x.props["max"], len(reps), k)
	}
	sel := map[string]M{}
	for _, rc := range reps {
		rm := rc.(M)
		id := str(rm["id"])
		if x.before.crit(id) == nil || sel[id] != nil {
			return failf("selected-are-distinct-criteria", "reversed criteria %v are not distinct current criteria %v", reps, x.before.critIds())
		}
		sel[id] = rm
	}
	// "selects criteria with the same count/ordering rule as omission": with weakest / strongest no unselected criterion
	// is less / more important than a selected one under the method's documented importance (recomputed from the
	// request; judged where the reversal is the first bias, so that the request's own parameters apply)
	if ordering := str(x.props["ordering"]); len(prefixNames(x.v)) == 1 && (ordering == "" || ordering == "weakest" || ordering == "strongest") {
		if imp, ok := refImportance(x.v, x.before); ok {
			scale := 1.0
			for _, w := range imp {
				scale = math.Max(scale, math.Abs(w))
			}
			tol := 1e-9 * scale
			if exactImportance(x.v.Method) {
				tol = 0
			}
			st.inc("C16:ordering-checked")
			for s := range sel {
				for _, cv := range x.before.Crit {
					if sel[cv.Id] != nil {
						continue
					}
					if ordering == "strongest" && imp[s] < imp[cv.Id]-tol {
						return failf("strongest-first", "reversed %s (importance %v) is less important than %s (%v), which is not reversed; importances %v", s, imp[s], cv.Id, imp[cv.Id], imp)
					}
					if ordering != "strongest" && imp[s] > imp[cv.Id]+tol {
						return failf("weakest-first", "reversed %s (importance %v) is more important than %s (%v), which is not reversed; importances %v", s, imp[s], cv.Id, imp[cv.Id], imp)
					}
				}
			}
		}
	}
	exact := true
	for _, a := range x.before.all() {
		na := x.after.alt(a.Id)
		if na == nil {
			return failf("alternatives-unchanged", "alternative %s vanished", a.Id)
		}
		for _, cv := range x.before.Crit {
			old, nw := a.Vals[cv.Id], na.Vals[cv.Id]
			rm := sel[cv.Id]
			if rm == nil {
				if old != nw {
					return failf("other-values-unchanged", "(%s,%s) is not selected but changed from %v to %v", a.Id, cv.Id, old, nw)
				}
				continue
			}
			mn, mx := x.before.rangeOf(cv.Id)
			if rc := x.v.crit(cv.Id); rc != nil && rc.HasRange {
				mn, mx = rc.Min, rc.Max // "the criterion's declared range": what the request declares
			}
			want := mx + mn - old
			scale := math.Max(math.Abs(mx), math.Max(math.Abs(mn), math.Abs(old))) // relative to the data: no absolute floor
			if math.Abs(nw-want) > 1e-9*scale {
				return failf("mirror-in-range", "(%s,%s): %v became %v, max+min-v with range [%v,%v] is %v", a.Id, cv.Id, old, nw, mn, mx, want)
			}
			if nw != want {
				exact = false
			}
			// the report carries the range used and the value handed on
			vr := asM(rm["valuesRange"])
			if !closeRel(num(vr["min"]), mn) || !closeRel(num(vr["max"]), mx) {
				return failf("report-range", "criterion %s: reported range %v, range of the received state [%v,%v]", cv.Id, vr, mn, mx)
			}
			rv, has := numMap(rm["alternativesValues"])[a.Id]
			if !has || rv != nw {
				return failf("report-values", "criterion %s alternative %s: reported %v (present=%v), handed on %v", cv.Id, a.Id, rv, has, nw)
			}
		}
	}
	// each criterion's observed range is preserved (no declared range: the mirror maps min<->max)
	for id := range sel {
		if cv := x.before.crit(id); !cv.HasRange {
			b0, b1 := x.before.rangeOf(id)
			a0, a1 := x.after.rangeOf(id)
			sc := math.Max(math.Abs(b0), math.Abs(b1))
			if math.Abs(a0-b0) > 1e-9*sc || math.Abs(a1-b1) > 1e-9*sc {
				return failf("range-preserved", "criterion %s: observed range [%v,%v] became [%v,%v]", id, b0, b1, a0, a1)
			}
		}
	}
	if x.idx == len(realBiases(x.v))-1 {
		for _, e := range x.r.Result {
			for id, val := range x.after.alt(e.Alternative.Id).Vals {
				if e.Alternative.Criteria[id] != val {
					return failf("method-input-is-reported-data", "result entry %s carries %s=%v, the bias handed on %v", e.Alternative.Id, id, e.Alternative.Criteria[id], val)
				}
			}
		}
	}
	_ = exact
	diff := false
	for id := range sel {
		b0, b1 := x.before.rangeOf(id)
		if b0 != b1 && len(x.before.all()) >= 2 {
			diff = true
		}
	}
	if len(sel) >= 1 && len(sel) < n && diff {
		st.nontrivial("C16", c.Req)
		st.inc("C16:nontrivial:" + x.v.Method)
		if x.idx > 0 {
			st.inc("C16:after-other-biases")
		}
		st.sample("C16", M{"request": withoutProbes(x.m)})
	}
	return nil
}

func genC16(t *rapid.T) ReqCase {
	return mkReqCase(stepRequest(t, GenOpts{ValueMode: -1, BigTiers: true, ValueScales: true}, "preferenceReversal", 2))
}

// double reversal of the same criteria restores the data
func judgeC16Twice(c ReqCase) *Fail {
	body := []byte(c.Req)
	out, rec := decideProbed(body, false, false)
	v := viewReq(parseReqM(body))
	if !out.OK {
		return failf("reversal-accepted", "%s with two reversals is rejected: %s", v.Method, out.Err)
	}
	s0, s1, s2 := rec.Snaps[0], rec.Snaps[1], rec.Snaps[2]
	r := parseResp(out.Body)
	a := fmt.Sprint(reportedReversedIds(&r.Biases[1]))
	b := fmt.Sprint(reportedReversedIds(&r.Biases[3]))
	if a != b {
		st.inc("C16:twice-different-selection")
		return nil // the selection depended on the (changed) values: nothing is claimed
	}
	changed := false
	for _, alt := range s0.all() {
		for id, old := range alt.Vals {
			nw := s2.alt(alt.Id).Vals[id]
			sc := math.Abs(old)
			mn, mx := s0.rangeOf(id)
			sc = math.Max(sc, math.Max(math.Abs(mn), math.Abs(mx)))
			if math.Abs(nw-old) > 1e-9*sc {
				return failf("double-reversal-restores", "(%s,%s): %v -> %v -> %v", alt.Id, id, old, s1.alt(alt.Id).Vals[id], nw)
			}
			if s1.alt(alt.Id).Vals[id] != old {
				changed = true
			}
		}
	}
	if changed {
		st.nontrivial("C16twice", c.Req)
		st.sample("C16twice", M{"request": withoutProbes(parseReqM(body))})
	}
	return nil
}

func genC16Twice(t *rapid.T) ReqCase {
	g := G{t}
	o := GenOpts{ValueMode: -1, Methods: []string{"majorityHeuristic", "aspectEliminationHeuristic", "electreIII"}}
	if g.Chance(1, 2) {
		o.Methods = nil
	}
	s := &genState{g: g, o: o}
	methods := o.Methods
	if len(methods) == 0 {
		methods = allMethods
	}
	s.method = g.Pick(methods...)
	req := M{"preferenceFunction": s.method}
	s.genProblem(req)
	req["methodParameters"] = s.genMethodParams(req)
	p := s.genBiasProps("preferenceReversal", req)
	if o.Methods == nil {
		p["ordering"] = "random"
	} else if g.Chance(1, 2) {
		p["ordering"] = g.Pick("weakest", "strongest", "random")
	}
	req["biases"] = []interface{}{M{"name": probeName}, M{"name": "preferenceReversal", "props": p}, M{"name": probeName}, M{"name": "preferenceReversal", "props": deepCopyM(p)}, M{"name": probeName}}
	req["biasApplyRandomSeed"] = g.Seed()
	return mkReqCase(GenReq{Req: req})
}

// ---------------------------------------------------------------- C17

func boundFn(props M, lo, hi float64) func(float64) float64 {
	scaling := -1.0
	if x, ok := props["allowedValuesRangeScaling"]; ok {
		scaling = num(x)
	}
	nonneg, _ := props["disallowNegativeValues"].(bool)
	return func(v float64) float64 {
		if nonneg && v < 0 {
			v = 0
		}
		if scaling > 0 {
			half := (hi - lo) / 2
			a, b := lo+half-half*scaling, hi-half+half*scaling
			if scaling == 1 {
				a, b = lo, hi
			}
			if v < a {
				v = a
			}
			if v > b {
				v = b
			}
		}
		return v
	}
}

func fatigueRatio(props M) float64 {
	p := asM(props["params"])
	if str(props["function"]) == "const" {
		return num(p["value"])
	}
	m, a, q := num(p["multiplier"]), num(p["alpha"]), num(p["queryNumber"])
	return m * (math.Exp(a*q) - 1)
}

func judgeC17(c ReqCase) *Fail {
	x, f := lastStep([]byte(c.Req), false)
	if f != nil {
		return f
	}
	if skipOverflow(x) {
		return nil
	}
	if !x.out.OK {
		return failf("fatigue-accepted", "%s with biases %v is rejected: %s", x.v.Method, prefixNames(x.v), x.out.Err)
	}
	if f := sameCriteriaList(x.before, x.after); f != nil {
		return f
	}
	if f := paramsUnchanged(x.before, x.after); f != nil {
		return f
	}
	rep := x.rep.propsMap()
	fr := fatigueRatio(x.props)
	got := num(rep["effectiveFatigueRatio"])
	if math.Abs(got-fr) > 1e-9*math.Max(1, math.Abs(fr)) {
		return failf("ratio-formula", "effectiveFatigueRatio %v, the ratio function gives %v for %v", got, fr, x.props)
	}
	_, bounded := x.props["allowedValuesRangeScaling"]
	nonneg, _ := x.props["disallowNegativeValues"].(bool)
	nz := 0
	for _, a := range x.before.all() {
		na := x.after.alt(a.Id)
		for _, cv := range x.before.Crit {
			v, nv := a.Vals[cv.Id], na.Vals[cv.Id]
			if v != 0 {
				nz++
			}
			if fr == 0 && !bounded && !nonneg {
				if nv != v {
					return failf("zero-ratio-identity", "f = 0 but (%s,%s) changed from %v to %v", a.Id, cv.Id, v, nv)
				}
				continue
			}
			d := math.Abs(fr * v)
			lo, hi := x.before.rangeOf(cv.Id)
			B := boundFn(x.props, lo, hi)
			slack := 1e-12*(math.Abs(v)+d) + 1e-12*math.Max(math.Abs(lo), math.Abs(hi)) // relative to the data: no absolute floor
			if nv < B(v-d)-slack || nv > B(v+d)+slack {
				return failf("blur-within-ratio", "(%s,%s): %v became %v; f=%v allows [%v,%v] after bounding (range [%v,%v], props %v)", a.Id, cv.Id, v, nv, fr, B(v-d), B(v+d), lo, hi, x.props)
			}
			if !bounded && !nonneg && d > 0 {
				aggCollect("C17agg", c.Req, 300)
				if (nv-v)/(fr*v) > 0 { // the seeded sign s in v + s*u*f*v
					st.inc("C17:moved-up")
				} else if (nv-v)/(fr*v) < 0 {
					st.inc("C17:moved-down")
				}
				u := math.Abs(nv-v) / d
				if u > 0.05 && u < 0.45 {
					st.inc("C17:u-low")
				} else if u > 0.55 && u < 0.95 {
					st.inc("C17:u-high")
				}
			}
		}
	}
	// the report carries exactly the values handed on
	repAlts := map[string]map[string]float64{}
	for _, key := range []string{"consideredAlternatives", "notConsideredAlternatives"} {
		for _, ra := range asL(rep[key]) {
			rm := ra.(M)
			repAlts[str(rm["id"])] = numMap(rm["criteria"])
		}
	}
	if len(repAlts) != len(x.after.all()) {
		return failf("report-values", "report lists %d alternatives, %d were handed on", len(repAlts), len(x.after.all()))
	}
	for _, a := range x.after.all() {
		if fmt.Sprint(repAlts[a.Id]) != fmt.Sprint(a.Vals) {
			return failf("report-values", "alternative %s: reported %v, handed on %v", a.Id, repAlts[a.Id], a.Vals)
		}
	}
	for _, e := range x.r.Result {
		if fmt.Sprint(e.Alternative.Criteria) != fmt.Sprint(map[string]float64(x.after.alt(e.Alternative.Id).Vals)) {
			return failf("method-input-is-reported-data", "result entry %s carries %v, fatigue handed on %v", e.Alternative.Id, e.Alternative.Criteria, x.after.alt(e.Alternative.Id).Vals)
		}
	}
	if fr != 0 && nz >= 4 {
		st.nontrivial("C17", c.Req)
		st.inc("C17:nontrivial:" + x.v.Method)
		if bounded || nonneg {
			st.inc("C17:bounded")
		}
		st.sample("C17", M{"request": withoutProbes(x.m)})
	}
	return nil
}

// judgeC17Agg: over many fatigue applications the seeded sign takes both directions and u varies.
func judgeC17Agg(c AggCase) *Fail {
	up, down := 0, 0
	us := map[int]int{}
	for _, req := range c.Reqs {
		x, f := lastStep([]byte(req), false)
		if f != nil || !x.out.OK {
			continue
		}
		fr := fatigueRatio(x.props)
		for _, a := range x.before.all() {
			for _, cv := range x.before.Crit {
				v, nv := a.Vals[cv.Id], x.after.alt(a.Id).Vals[cv.Id]
				d := math.Abs(fr * v)
				if d == 0 {
					continue
				}
				if (nv-v)/(fr*v) > 0 { // the seeded sign s in v + s*u*f*v
					up++
				} else if (nv-v)/(fr*v) < 0 {
					down++
				}
				us[int(math.Abs(nv-v)/d*10)]++
			}
		}
	}
	if up+down >= 200 && (up == 0 || down == 0) {
		return failf("sign-takes-both-directions", "over %d blurred values in %d requests the sign s of v + s*u*f*v was +1 %d times and -1 %d times", up+down, len(c.Reqs), up, down)
	}
	if up+down >= 200 && len(us) < 4 {
		return failf("u-drawn-per-value", "over %d blurred values the relative move |v'-v|/|f v| takes only %d of 10 deciles: %v", up+down, len(us), us)
	}
	return nil
}

func genC17(t *rapid.T) ReqCase {
	return mkReqCase(stepRequest(t, GenOpts{ValueMode: -1, BigTiers: true, ValueScales: true}, "fatigue", 2))
}

func init() {
	register("C16", "C16", 1, genC16, judgeC16)
	register("C16", "C16twice", 0.5, genC16Twice, judgeC16Twice)
	register("C17", "C17", 1, genC17, judgeC17)
	registerAggregate("C17", "C17agg", judgeC17Agg)
}

func TestC16(t *testing.T)      { runRegistered(t, "C16") }
func TestC16Twice(t *testing.T) { runRegistered(t, "C16twice") }
func TestC17(t *testing.T) {
	runRegistered(t, "C17")
	runAggregate(t, "C17", "C17agg", 100, judgeC17Agg)
}
