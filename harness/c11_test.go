package main_test

// C11 — majority heuristic is a sequential pairwise tournament.

import (
	"fmt"
	"math"
	"sort"
	"strings"
	"testing"

	"pgregory.net/rapid"
)

// finalState runs the request with a trailing probe and returns the state the
// method finally received plus the plain (un-probed) response, which must agree.
func finalState(body []byte) (*Snap, *Resp, Outcome, *Fail) {
	m := parseReqM(body)
	pm := deepCopyM(m).(M)
	pm["biases"] = append(asL(pm["biases"]), M{"name": probeName})
	pout, rec := decideProbed(mustJSON(pm), false, false)
	out := decide(body)
	if out.OK != pout.OK {
		return nil, nil, out, failf("probe-independence", "plain ok=%v (%s), with trailing probe ok=%v (%s)", out.OK, out.Err, pout.OK, pout.Err)
	}
	if !out.OK {
		return nil, nil, out, nil
	}
	r, pr := parseResp(out.Body), parseResp(pout.Body)
	if string(mustJSON(r.Result)) != string(mustJSON(pr.Result)) {
		return nil, nil, out, failf("probe-independence", "result differs with a trailing probe:\n plain  %s\n probed %s", mustJSON(r.Result), mustJSON(pr.Result))
	}
	if len(rec.Snaps) == 0 {
		return nil, nil, out, failf("harness-probe-count", "trailing probe not called")
	}
	return rec.Snaps[len(rec.Snaps)-1], r, out, nil
}

// consideredInRequestOrder: the fixed search order is the order of `choseToMake` in the request (the state the
// method receives must list the considered alternatives in that order; biases keep it).
func consideredInRequestOrder(v *ReqView, s *Snap) ([]SnapAlt, *Fail) {
	if len(s.Cons) != len(v.Chose) {
		return nil, failf("considered-set", "the method received %d considered alternatives %v for choseToMake %v", len(s.Cons), s.ids(true), v.Chose)
	}
	out := make([]SnapAlt, 0, len(v.Chose))
	for _, id := range v.Chose {
		a := s.alt(id)
		if a == nil || !setOf(s.ids(true))[id] {
			return nil, failf("considered-set", "choseToMake names %s but the method received considered alternatives %v", id, s.ids(true))
		}
		out = append(out, *a)
	}
	return out, nil
}

type mEntry struct {
	id      string
	val     float64
	with    string
	withVal float64
}

// refMajority runs the tournament over `order` (order[0] = initial running
// winner). coin(k) decides the k-th score tie under the random policy
// (true = current stays). Returns the drop-out groups in order of dropping out;
// the last group holds the undefeated alternative.
func refMajority(crit []CritView, w map[string]float64, order []SnapAlt, policy string, coin func(k int) bool, mg *marginT) (groups [][]mEntry, draws int) {
	cur := order[0]
	var same []mEntry
	curEval := 0.0
	for _, an := range order[1:] {
		s1, s2 := 0.0, 0.0
		for _, c := range crit {
			a, b := cur.Vals[c.Id], an.Vals[c.Id]
			if c.Cost {
				a, b = -a, -b
			}
			mg.cmp(math.Abs(a-b), 1e-6)
			if math.Abs(a-b) <= 1e-6 {
				continue
			}
			if a > b {
				s1 += w[c.Id]
			} else {
				s2 += w[c.Id]
			}
		}
		curEval = s1
		outcome := ""
		mg.cmp(math.Abs(s1-s2), 1e-6)
		if math.Abs(s1-s2) <= 1e-6 {
			outcome = policy
			if policy == "random" {
				if coin(draws) {
					outcome = "current"
				} else {
					outcome = "newer"
				}
			}
			draws++
		} else if s2 < s1 {
			outcome = "current"
		} else {
			outcome = "newer"
		}
		switch outcome {
		case "allow":
			same = append(same, mEntry{an.Id, s2, cur.Id, s1})
		case "current":
			groups = append(groups, []mEntry{{an.Id, s2, cur.Id, s1}})
		case "newer":
			curEval = s2
			same = append(same, mEntry{cur.Id, s1, an.Id, s2})
			groups = append(groups, same)
			same = nil
			cur = an
		}
	}
	same = append(same, mEntry{cur.Id, curEval, "", 0})
	groups = append(groups, same)
	return groups, draws
}

// matchMajority compares a response with reference groups. Empty string = match.
func matchMajority(groups [][]mEntry, r *Resp) string {
	pos := 0
	// group index per id, for reachability
	level := map[string]int{}
	for gi, g := range groups {
		for _, e := range g {
			level[e.id] = gi
		}
	}
	if len(level) != len(r.Result) {
		return fmt.Sprintf("reference ranks %d alternatives, response %d", len(level), len(r.Result))
	}
	for gi := len(groups) - 1; gi >= 0; gi-- {
		g := groups[gi]
		exp := map[string]mEntry{}
		for _, e := range g {
			exp[e.id] = e
		}
		for k := 0; k < len(g); k++ {
			if pos >= len(r.Result) {
				return "response too short"
			}
			o := r.Result[pos]
			pos++
			e, ok := exp[o.Alternative.Id]
			if !ok {
				return fmt.Sprintf("position %d holds %s, expected one of group %v", pos-1, o.Alternative.Id, sortedKeys(exp))
			}
			delete(exp, o.Alternative.Id)
			if e.with == "" {
				continue // the undefeated one: evaluation not constrained
			}
			cw, val, cval := str(o.Evaluation["comparedWith"]), num(o.Evaluation["value"]), num(o.Evaluation["comparedAlternativeValue"])
			if cw != e.with || math.Abs(val-e.val) > 1e-9*(1+math.Abs(e.val)) || math.Abs(cval-e.withVal) > 1e-9*(1+math.Abs(e.withVal)) {
				return fmt.Sprintf("%s reports comparedWith=%q value=%v comparedAlternativeValue=%v, tournament gives %q %v %v", e.id, cw, val, cval, e.with, e.val, e.withVal)
			}
			if val > cval+1e-6 {
				return fmt.Sprintf("%s scored %v, higher than its last opponent's %v", e.id, val, cval)
			}
		}
	}
	// links by reachability: own group's other members + every lower group
	adj := map[string][]string{}
	for _, e := range r.Result {
		adj[e.Alternative.Id] = e.BetterThanOrSameAs
	}
	for _, e := range r.Result {
		id := e.Alternative.Id
		reach := map[string]bool{}
		stack := []string{id}
		for len(stack) > 0 {
			x := stack[len(stack)-1]
			stack = stack[:len(stack)-1]
			for _, y := range adj[x] {
				if !reach[y] {
					reach[y] = true
					stack = append(stack, y)
				}
			}
		}
		delete(reach, id)
		for o, lv := range level {
			if o == id {
				continue
			}
			if (lv <= level[id]) != reach[o] {
				return fmt.Sprintf("links: from %s (group %d) alternative %s (group %d) reachable=%v", id, level[id], o, lv, reach[o])
			}
		}
	}
	return ""
}

func permutations(n int, f func(p []int) bool) {
	p := make([]int, n)
	for i := range p {
		p[i] = i
	}
	var rec func(k int) bool
	rec = func(k int) bool {
		if k == n {
			return f(p)
		}
		for i := k; i < n; i++ {
			p[k], p[i] = p[i], p[k]
			if rec(k + 1) {
				return true
			}
			p[k], p[i] = p[i], p[k]
		}
		return false
	}
	rec(0)
}

type c11Info struct {
	randomOrder, randomPolicy   bool
	identityMatches             bool
	coinNewerSeen, coinCurrSeen bool
	considered                  int
}

func judgeC11(c ReqCase) *Fail {
	info, f := analyseC11(c)
	if f == nil && info != nil {
		if info.randomOrder && info.considered >= 3 {
			aggCollect("C11agg-order", c.Req, 200)
		}
		if info.randomPolicy && !info.randomOrder && (info.coinNewerSeen || info.coinCurrSeen) {
			aggCollect("C11agg-coin", c.Req, 200)
		}
	}
	return f
}

func analyseC11(c ReqCase) (*c11Info, *Fail) {
	body := []byte(c.Req)
	v := viewReq(parseReqM(body))
	snap, r, out, f := finalState(body)
	if f != nil {
		return nil, f
	}
	if !out.OK && strings.Contains(out.Err, "unsupported value") && overflowExcused(body) {
		st.inc("skipped-exp-overflow") // the documented exponential anchoring formula is not a finite float64 here
		return nil, nil
	}
	if !out.OK {
		return nil, failf("majority-accepted", "valid majority request rejected: %s", out.Err)
	}
	w, _, wok := finalWeights(v, r, snap.critIds())
	if !wok {
		return nil, failf("params-reconstruct", "cannot reconstruct the weight of every final criterion %v from request and reports", snap.critIds())
	}
	policy := str(v.MP["drawResolution"])
	if policy == "" {
		policy = "allow"
	}
	randomOrder, _ := v.MP["randomAlternativesOrdering"].(bool)
	cc := str(v.MP["currentChoice"])
	// search order: current choice first, then the considered alternatives (without it)
	cons, cf := consideredInRequestOrder(v, snap)
	if cf != nil {
		return nil, cf
	}
	var first *SnapAlt
	var rest []SnapAlt
	if cc != "" {
		first = snap.alt(cc)
		for _, a := range cons {
			if a.Id != cc {
				rest = append(rest, a)
			}
		}
	} else {
		rest = append(rest, cons...)
	}
	info := &c11Info{randomOrder: randomOrder, randomPolicy: policy == "random", considered: len(snap.Cons)}
	mg := newMargin()
	try := func(order []SnapAlt, coin func(int) bool) (string, int) {
		g, draws := refMajority(snap.Crit, w, order, policy, coin, mg)
		return matchMajority(g, r), draws
	}
	mkOrder := func(p []int) []SnapAlt {
		var o []SnapAlt
		if first != nil {
			o = append(o, *first)
		}
		for _, i := range p {
			o = append(o, rest[i])
		}
		return o
	}
	identity := make([]int, len(rest))
	for i := range identity {
		identity[i] = i
	}
	st.inc("C11:policy=" + policy)
	label := "fixed"
	var why string
	matched := false
	coinSearch := func(order []SnapAlt) bool {
		if policy != "random" {
			why, _ = try(order, nil)
			return why == ""
		}
		// enumerate coin sequences
		// the number of score draws depends on the path taken: one coin per comparison is enough
		bits := len(order) - 1
		if bits < 0 {
			bits = 0
		}
		anyMatch, allCurrent, allNewer := false, false, false
		draws := 0
		for mask := 0; mask < 1<<uint(bits); mask++ {
			mm := mask
			wy, d := try(order, func(k int) bool { return mm&(1<<uint(k)) != 0 })
			if wy == "" {
				anyMatch = true
				if d > draws {
					draws = d
				}
				if mask == 1<<uint(bits)-1 {
					allCurrent = true
				}
				if mask == 0 {
					allNewer = true
				}
			} else {
				why = wy
			}
		}
		if anyMatch && draws > 0 && !randomOrder {
			if !allCurrent {
				st.inc("C11:coin-newer-observed")
				info.coinNewerSeen = true
			}
			if !allNewer {
				st.inc("C11:coin-current-observed")
				info.coinCurrSeen = true
			}
		}
		return anyMatch
	}
	if !randomOrder {
		matched = coinSearch(mkOrder(identity))
	} else {
		label = "random-order"
		idMatch := coinSearch(mkOrder(identity))
		info.identityMatches = idMatch
		matched = idMatch
		if !idMatch {
			permutations(len(rest), func(p []int) bool {
				if coinSearch(mkOrder(p)) {
					matched = true
					return true
				}
				return false
			})
			if matched {
				st.inc("C11:random-order-nonidentity")
			}
		}
	}
	if mg.min < 1e-9 {
		st.inc("C11:ambiguous")
		return nil, nil
	}
	if !matched {
		if label == "fixed" && policy != "random" {
			return nil, failf("tournament-exact", "fixed order, policy %s: %s\n response %s", policy, why, mustJSON(r.Result))
		}
		return nil, failf("tournament-some-order", "no search order (current first) / coin sequence reproduces the response (policy %s, %s); last mismatch: %s\n response %s", policy, label, why, mustJSON(r.Result))
	}
	st.inc("C11:" + label)
	// non-trivial: >= 4 alternatives and a draw next to a loss in the tournament
	if len(r.Result) >= 4 {
		g, draws := refMajority(snap.Crit, w, mkOrder(identity), policy, func(int) bool { return true }, mg)
		if draws > 0 && len(g) >= 2 {
			st.nontrivial("C11", c.Req)
			st.sample("C11", M{"request": parseReqM(body), "result_ids": resultIds(r)})
		}
	}
	if len(v.biasNames()) > 0 {
		st.inc("C11:with-bias-prefix")
	}
	return info, nil
}

func genC11(t *rapid.T) ReqCase {
	g := G{t}
	o := GenOpts{Methods: []string{"majorityHeuristic"}, MaxAlts: 6, MaxCrit: 4, ValueMode: -1, TieHeavy: g.Chance(2, 3)}
	// any bias may precede: the oracle reads the final state from the probe and the weights of added criteria from the reports
	if g.Chance(1, 3) {
		o.MaxBiases = 2
	}
	if g.Chance(1, 2) {
		o.FixedOrder = true
		o.MaxAlts = 7
		o.BigTiers, o.ValueScales = true, true
	}
	gr := genRequest(t, o)
	if mp := asM(gr.Req["methodParameters"]); str(mp["drawResolution"]) == "random" && len(asL(gr.Req["choseToMake"])) > 10 {
		// the oracle enumerates the coin sequences of the random policy: 2^(n-1) tournaments
		mp["drawResolution"] = g.Pick("allow", "current", "newer")
	}
	if g.Chance(1, 3) {
		nearTies(g, gr.Req, []float64{5e-7, -5e-7, 2e-6, -2e-6}, false)
		fixRanges(gr.Req)
	}
	return mkReqCase(gr)
}

// run-level: the seeded shuffle has an effect, and the random draw policy takes both outcomes
func judgeC11AggOrder(c AggCase) *Fail {
	n, nonIdentity := 0, 0
	for _, req := range c.Reqs {
		info, f := analyseC11(ReqCase{Req: req})
		if f != nil || info == nil {
			continue
		}
		n++
		if !info.identityMatches {
			nonIdentity++
		}
	}
	if n >= 50 && nonIdentity == 0 {
		return failf("seeded-random-search-order", "%d decisions with randomAlternativesOrdering=true and >= 3 considered alternatives all equal the listing-order tournament", n)
	}
	return nil
}

func judgeC11AggCoin(c AggCase) *Fail {
	n, newer, cur := 0, 0, 0
	for _, req := range c.Reqs {
		info, f := analyseC11(ReqCase{Req: req})
		if f != nil || info == nil {
			continue
		}
		n++
		if info.coinNewerSeen {
			newer++
		}
		if info.coinCurrSeen {
			cur++
		}
	}
	if n >= 50 && (newer == 0 || cur == 0) {
		return failf("random-policy-takes-both-outcomes", "%d decisions with a score draw under the random policy: newer won in %d, current in %d", n, newer, cur)
	}
	return nil
}

func init() {
	register("C11", "C11", 1, genC11, judgeC11)
	registerAggregate("C11", "C11agg-order", judgeC11AggOrder)
	registerAggregate("C11", "C11agg-coin", judgeC11AggCoin)
}

func TestC11(t *testing.T) {
	runRegistered(t, "C11")
	runAggregate(t, "C11", "C11agg-order", 50, judgeC11AggOrder)
	runAggregate(t, "C11", "C11agg-coin", 50, judgeC11AggCoin)
}

var _ = sort.Strings
