package main_test

// C05 — ELECTRE III indices follow the method's definition.

import (
	"fmt"
	"testing"

	"github.com/Azbesciak/RealDecisionMaker/lib/logic/preference-func/electreIII"
	"github.com/Azbesciak/RealDecisionMaker/lib/model"
	"github.com/Azbesciak/RealDecisionMaker/lib/utils"
	"pgregory.net/rapid"
)

type electreProblem struct {
	ids  []string
	vals [][]float64
	cs   []refEleCrit
	fa   float64
	fb   float64
}

func lin(m M) (b float64, present bool) {
	if m == nil {
		return 0, false
	}
	b = num(m["b"])
	return b, b != 0
}

// electreProblemOf extracts the reference problem from a request (considered alternatives, in choseToMake order).
func electreProblemOf(v *ReqView) *electreProblem {
	p := &electreProblem{fa: -0.15, fb: 0.3}
	if d := asM(v.MP["electreDistillation"]); d != nil {
		p.fa, p.fb = num(d["a"]), num(d["b"])
	}
	ec := asM(v.MP["electreCriteria"])
	for _, c := range v.Criteria {
		e := asM(ec[c.Id])
		rc := refEleCrit{K: num(e["k"]), Cost: c.Cost}
		rc.Q, rc.HasQ = lin(asM(e["q"]))
		rc.P, rc.HasP = lin(asM(e["p"]))
		rc.V, rc.HasV = lin(asM(e["v"]))
		p.cs = append(p.cs, rc)
	}
	for _, id := range v.Chose {
		a := v.alt(id)
		row := make([]float64, len(v.Criteria))
		for j, c := range v.Criteria {
			row[j] = a.Vals[c.Id]
		}
		p.ids = append(p.ids, id)
		p.vals = append(p.vals, row)
	}
	return p
}

func (p *electreProblem) credibility(mg *marginT) [][]float64 {
	n := len(p.ids)
	sig := make([][]float64, n)
	for i := range sig {
		sig[i] = make([]float64, n)
		for j := range sig[i] {
			if i == j {
				sig[i][j] = 1
			} else {
				sig[i][j] = refCredibility(p.vals[i], p.vals[j], p.cs, mg)
			}
		}
	}
	return sig
}

func electreIndices(r *Resp) (asc, desc map[string]int) {
	asc, desc = map[string]int{}, map[string]int{}
	for _, e := range r.Result {
		asc[e.Alternative.Id] = int(num(e.Evaluation["ascendingIndex"]))
		desc[e.Alternative.Id] = int(num(e.Evaluation["descendingIndex"]))
	}
	return
}

// electreLinksOracle: betterThanOrSameAs(a) = {b != a: asc(a)<=asc(b) and desc(a)<=desc(b)}; indices consecutive from 1.
func electreLinksOracle(r *Resp) *Fail {
	asc, desc := electreIndices(r)
	for name, idx := range map[string]map[string]int{"ascendingIndex": asc, "descendingIndex": desc} {
		seen := map[int]bool{}
		mx := 0
		for _, x := range idx {
			seen[x] = true
			if x > mx {
				mx = x
			}
		}
		for k := 1; k <= mx; k++ {
			if !seen[k] {
				return failf("indices-consecutive", "%s values %v are not consecutive integers from 1", name, idx)
			}
		}
		if seen[0] || len(seen) != mx {
			return failf("indices-consecutive", "%s values %v are not consecutive integers from 1", name, idx)
		}
	}
	for _, e := range r.Result {
		a := e.Alternative.Id
		want := map[string]bool{}
		for b := range asc {
			if b != a && asc[a] <= asc[b] && desc[a] <= desc[b] {
				want[b] = true
			}
		}
		got := setOf(e.BetterThanOrSameAs)
		if len(got) != len(e.BetterThanOrSameAs) || fmt.Sprint(sortedKeys(got)) != fmt.Sprint(sortedKeys(want)) {
			return failf("links-from-indices", "%s (asc %d, desc %d) lists %v, expected %v (asc %v desc %v)", a, asc[a], desc[a], e.BetterThanOrSameAs, sortedKeys(want), asc, desc)
		}
	}
	return nil
}

func judgeC05(c ReqCase) *Fail {
	body := []byte(c.Req)
	out := decide(body)
	v := viewReq(parseReqM(body))
	if !out.OK {
		return failf("electre-accepted", "valid ELECTRE III request rejected: %s", out.Err)
	}
	r := parseResp(out.Body)
	if len(v.Chose) >= 65 {
		st.inc("C05:alternatives>=65")
	} else if len(v.Chose) >= 7 {
		st.inc("C05:alternatives 7-16")
	}
	if f := electreLinksOracle(r); f != nil {
		return f
	}
	p := electreProblemOf(v)
	mg := newMargin()
	sig := p.credibility(mg)
	var ia, id distillInfo
	ra := refDistill(sig, p.fa, p.fb, true, mg, &ia)
	rd := refDistill(sig, p.fa, p.fb, false, mg, &id)
	if mg.min < 1e-9 {
		st.inc("C05:ambiguous")
		return nil
	}
	asc, desc := electreIndices(r)
	for i, a := range p.ids {
		if asc[a] != ra[i] || desc[a] != rd[i] {
			return failf("indices-follow-definition", "alternative %s: ascendingIndex %d descendingIndex %d, textbook distillations give %d / %d\n credibility %v\n reported asc %v desc %v\n reference asc %v desc %v (ids %v)", a, asc[a], desc[a], ra[i], rd[i], sig, asc, desc, ra, rd, p.ids)
		}
	}
	tieNoQP := false
	for j, cc := range p.cs {
		if !cc.HasQ && !cc.HasP {
			for i := range p.vals {
				for k := range p.vals {
					if i != k && p.vals[i][j] == p.vals[k][j] {
						tieNoQP = true
					}
				}
			}
		}
	}
	if tieNoQP {
		st.inc("C05:tie-on-criterion-without-q-p")
	}
	if len(p.ids) >= 3 && (ia.inner+id.inner > 0 || ia.classes >= 3 || id.classes >= 3) {
		st.nontrivial("C05", c.Req)
		if ia.inner+id.inner > 0 {
			st.inc("C05:inner-distillation")
		}
		st.sample("C05", M{"request": parseReqM(body), "asc": ra, "desc": rd})
	}
	return nil
}

func genElectreReq(t *rapid.T, minAlts int) GenReq {
	g := G{t}
	o := GenOpts{Methods: []string{"electreIII"}, MaxBiases: 0, MaxCrit: 4, MaxAlts: 6, MinAlts: minAlts, NoRange: true, ForceAllCons: 0}
	if g.Chance(1, 2) {
		o.ValueMode = g.Int(vmBinary, vmSmallInt)
		if g.Chance(1, 2) {
			o.ValueMode = vmDyadic
		}
	} else {
		o.ValueMode = g.Int(vmHalf, vmPos)
	}
	// "any number of alternatives": mostly small (every tie layout is reachable with six), sometimes a few dozen,
	// rarely more than a machine word of them
	if g.Rare(4) {
		o.MinAlts, o.MaxAlts = 7, 16
	} else if g.Rare(10) {
		o.MinAlts, o.MaxAlts, o.ForceAllCons = 65, 70, 1 // tens of milliseconds each
	}
	gr := genRequest(t, o)
	if len(asL(gr.Req["choseToMake"])) >= 65 {
		gr.Labels = append(gr.Labels, "alts>=65")
	}
	if g.Chance(1, 3) {
		// veto-heavy: every criterion has q < p < v close together and values spread so that several criteria
		// of one pair sit between p and v at the same time (partial discordance on more than one criterion)
		ec := asM(asM(gr.Req["methodParameters"])["electreCriteria"])
		for _, id := range sortedKeys(ec) {
			e := asM(ec[id])
			q := float64(g.Int(0, 1))
			p := q + float64(g.Int(1, 2))
			v := p + float64(int(2)<<uint(g.Int(0, 2)))
			if q > 0 {
				e["q"] = M{"b": q}
			} else {
				delete(e, "q")
			}
			e["p"], e["v"] = M{"b": p}, M{"b": v}
			e["k"] = float64(g.Int(1, 8))
		}
		for _, a := range asL(gr.Req["knownAlternatives"]) {
			cm := a.(M)["criteria"].(M)
			for _, k := range sortedKeys(cm) {
				cm[k] = float64(g.Int(0, 14))
			}
		}
		gr.Labels = append(gr.Labels, "vetoHeavy")
	} else if g.Chance(1, 4) { // integer values 0..7 where integer thresholds bite
		for _, a := range asL(gr.Req["knownAlternatives"]) {
			cm := a.(M)["criteria"].(M)
			for _, k := range sortedKeys(cm) {
				cm[k] = float64(g.Int(0, 7))
			}
		}
	}
	return gr
}

func genC05(t *rapid.T) ReqCase { return mkReqCase(genElectreReq(t, 1)) }

// ---- component level: RankAscending / RankDescending on arbitrary credibility matrices

type C05MatCase struct {
	Sig [][]float64 `json:"sigma"`
	A   float64     `json:"a"`
	B   float64     `json:"b"`
}

func judgeC05Mat(c C05MatCase) *Fail {
	n := len(c.Sig)
	flat := make([]float64, 0, n*n)
	for _, row := range c.Sig {
		flat = append(flat, row...)
	}
	ids := make(model.Alternatives, n)
	for i := range ids {
		ids[i] = fmt.Sprint(i)
	}
	am := &electreIII.AlternativesMatrix{Alternatives: &ids, Values: &electreIII.Matrix{Size: n, Data: flat}}
	f := &utils.LinearFunctionParameters{A: c.A, B: c.B}
	var asc, desc []int
	var perr interface{}
	func() {
		defer func() { perr = recover() }()
		asc = *electreIII.RankAscending(am, f)
		desc = *electreIII.RankDescending(am, f)
	}()
	if perr != nil {
		return failf("distillation-panics", "%v", perr)
	}
	mg := newMargin()
	var ia, id distillInfo
	ra := refDistill(c.Sig, c.A, c.B, true, mg, &ia)
	rd := refDistill(c.Sig, c.A, c.B, false, mg, &id)
	if mg.min < 1e-9 {
		st.inc("C05:mat-ambiguous")
		return nil
	}
	if fmt.Sprint(asc) != fmt.Sprint(ra) || fmt.Sprint(desc) != fmt.Sprint(rd) {
		return failf("distillation-follows-definition", "sigma %v f=(%v,%v): RankAscending %v RankDescending %v, textbook %v / %v", c.Sig, c.A, c.B, asc, desc, ra, rd)
	}
	if n >= 3 && (ia.inner+id.inner > 0) {
		st.nontrivial("C05mat", string(mustJSON(c)))
		st.sample("C05mat", c)
	}
	return nil
}

func genC05Mat(t *rapid.T) C05MatCase {
	g := G{t}
	n := g.Int(1, 6)
	grid := g.Int(0, 2)
	c := C05MatCase{A: -0.15, B: 0.3}
	switch g.Int(0, 3) {
	case 0:
		c.A, c.B = 0, 0
	case 1:
		c.A, c.B = -0.125, 0.25
	case 2:
		c.A, c.B = 0, 0.125
	}
	for i := 0; i < n; i++ {
		row := make([]float64, n)
		for j := range row {
			var v float64
			switch grid {
			case 0:
				v = float64(g.Int(0, 10)) / 10
			case 1:
				v = float64(g.Int(0, 4)) / 4
			default:
				v = g.Unif(0, 1)
				if g.Chance(1, 4) {
					v = 0
				} else if g.Chance(1, 6) {
					v = 1
				}
			}
			if i == j {
				v = 1
			}
			row[j] = v
		}
		c.Sig = append(c.Sig, row)
	}
	return c
}

func init() {
	register("C05", "C05", 1, genC05, judgeC05)
	register("C05", "C05mat", 2, genC05Mat, judgeC05Mat)
}

func TestC05Api(t *testing.T) { runRegistered(t, "C05") }
func TestC05Mat(t *testing.T) { runRegistered(t, "C05mat") }
