#!/bin/sh
# development aid: ./dev.sh <request.json>  -> prints the decision of /repo's current tree
export GOFLAGS=-mod=mod GOPROXY=off GOSUMDB=off GOTOOLCHAIN=local
B=/verif/build/dev; rm -rf $B; mkdir -p $B; cp /repo/httpClient/*.go /verif/harness/*.go /verif/harness/go.mod /verif/harness/go.sum $B/
cd $B && VERIF_DEV_REQ=$1 go test -vet=off -count=1 -v -run TestDevDecide . 2>&1 | grep -v "^ok\|^PASS\|^=== \|^--- "
