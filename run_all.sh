#!/bin/sh
# ./run_all.sh [tier] [seed...]  — runs every claimed check, prints one line per run
tier=${1:-quick}; shift
seeds=${@:-1}
for s in $seeds; do
  for id in $(python3 -c "import json;print(' '.join(c['property_id'] for c in json.load(open('/verif/MANIFEST.json'))['checks']))"); do
    t0=$(date +%s)
    out=$(VERIF_SEED=$s ./check $id --tier $tier 2>&1); rc=$?
    t1=$(date +%s)
    echo "$id seed=$s tier=$tier exit=$rc wall=$((t1-t0))s $(echo "$out" | grep -c '^VIOLATION') violations $(echo "$out" | grep INCONCLUSIVE | head -1 | cut -c1-150)"
  done
done
