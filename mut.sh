#!/bin/sh
# self-mutation aid: ./mut.sh <file-under-/repo> <sed-expression> <property ids...>
# applies the edit to /repo's working tree, runs the lib tests + the quick checks, restores the tree.
f=$1; e=$2; shift 2
cd /repo || exit 1
if [ -n "$(git status --porcelain --untracked-files=no)" ]; then echo "repo dirty"; exit 1; fi
sed -i "$e" "$f"
if git diff --quiet; then echo "MUTATION DID NOT APPLY"; exit 1; fi
git diff | grep '^[-+]' | grep -v '^+++\|^---' | head -6
(cd lib && go test ./... 2>&1 | grep -v "^ok\|no test files" | head -5)
cd /verif
for id in "$@"; do ./check $id ${MUT_ARGS:-} 2>/dev/null | grep -c VIOLATION | sed "s/^/$id violations: /"; done
git -C /repo checkout -- .
