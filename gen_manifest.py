#!/usr/bin/env python3
"""Regenerates MANIFEST.json from the table below (kept valid at all times)."""
import json, os

HERE = os.path.dirname(os.path.abspath(__file__))
TRUST = "Trusted: Go toolchain, encoding/json, rapid v1.3.0, the harness' own request/response views and reference models (exercised on the repository's textbook examples). Sampling only: shows the property on everything explored, never absence."

CLAIMED = {
    "C01": ("Generated requests for all seven methods (tie-heavy shapes forced for majority/utility/ELECTRE) and an invariant oracle on every accepted response: exact id set, no self/duplicate/foreign links.",
            "property-based testing (rapid): generated requests + response invariant", "Rejected requests are not judged here (C07/C20 decide whether rejecting was right)."),
    "C02": ("Every generated request (accepted and rejected, incl. constraint-level mutants) is decided 6 times in one process interleaved with other requests and again in K fresh processes in different orders; byte equality for accepted, same verdict for rejected.",
            "property-based testing (rapid): repetition / fresh-process differential", "'Every process start' = 3 (quick) / 8 (thorough) fresh processes; Go randomises map iteration per range statement, so in-process repetition samples iteration orders."),
    "C03": ("Closed-formula oracles (weighted sum, OWA, Choquet with the stated 1e-5 tie grouping and the plain textbook sum on well separated values) recomputed from the final criteria values in the response and the parameters reconstructed from request + bias reports.",
            "property-based testing (rapid): reference-formula oracle", "Weighted sum: the known finding D10 is matched by its own signature (reported = plain signed sum); any other deviation still raises. Choquet after criterion-adding biases is not judged."),
    "C04": ("Component-level generation of value multisets for AlternativeResults.Ranking() plus API-level tie-heavy/near-tie requests; order, exact link sets and reachability derived from the reported values; permutation metamorphic relation.",
            "property-based testing (rapid): order/link oracle + permutation metamorphic relation", "Permutation invariance judged on requests without biases."),
    "C05": ("Differential oracle: an independent textbook re-implementation of ELECTRE III (concordance, discordance, credibility, distillation over index sets, numbering) compared with the reported indices on generated requests (50% integer/dyadic instances with frequent ties) and with RankAscending/RankDescending on generated credibility matrices; links-from-indices rule.",
            "property-based testing (rapid): differential against an independent reference implementation", "Naming of ascending/descending taken from the textbook matrices pinned in the repository's tests. Instances with a non-zero comparison margin below 1e-9 are skipped as ambiguous (counted)."),
    "C06": ("Metamorphic relations with no reference implementation: planted weakly dominated pairs and identical twins inside generated ELECTRE III problems, independent permutation of knownAlternatives/choseToMake, every weight k multiplied by 2^m; three decisions per case.",
            "property-based testing (rapid): metamorphic relations (dominance, twins, permutation, scaling)", "Dominance is not judged on instances where float noise could decide a reference comparison (margin below 1e-9, counted)."),
    "C07": ("7 methods x all bias sequences of length 0..4 with a recording probe bias around every step; invariants over the recorded pipeline history (answered, values for every criterion, parameters cover criteria operationally, split unchanged, criteria change exactly as reported, untouched values bit-identical) and probed == un-probed response.",
            "property-based testing (rapid): pipeline-history invariants via probe bias", "The probe is a public-interface bias returning `current` unchanged; exp-overflow of the documented anchoring formula (alpha x |d| > 600) is outside the numeric domain and skipped (counted)."),
    "C08": ("Generated bias lists (always-reporting biases and the probe as firing indicators, disabled entries with unknown names and garbage props, probabilities incl. 0, 1, near 0/1) with metamorphic oracles: shape/echo, disabled==absent byte-identical, non-firing entry replaceable/removable without effect, independence from the other entries, monotonicity in the probability, plus frequency batches over rapid-drawn seed ranges.",
            "property-based testing (rapid): metamorphic relations + statistical frequency band", "Frequency: N = 2000 (quick) / 20000 (thorough) consecutive seeds per batch, acceptance band 6.5 sigma + 2."),
    "C11": ("Reference tournament re-implemented from the statement; exact comparison (drop-out groups as sets, comparedWith and both scores, reachability of links) for fixed order and deterministic policies, existential over search orders with the current choice first and over coin sequences otherwise; near-tie values around the 1e-6 threshold.",
            "property-based testing (rapid): reference-model oracle, existential over random choices", "The library's random stream is never replayed; random order / coin are handled by enumeration (<= 6 alternatives). The undefeated alternative's evaluation fields are unconstrained."),
    "C12": ("Reference elimination walk over the reference level series; exact for fixed order and distinct weights, existential over alternative orders and tie-breaks of equal weights otherwise; survivors first and reporting no failed threshold, eliminated in reverse order with (level, criterion, threshold), chain links by reachability.",
            "property-based testing (rapid): reference-model oracle, existential over random choices", "No order is claimed among survivors."),
    "C13": ("Reference acceptance walk in search order (current choice first) over the reference level series; accepted entries in acceptance order with level index and full thresholds they really satisfy, leftovers with the index after the last level and the worst end of each range over all known alternatives.",
            "property-based testing (rapid): reference-model oracle, existential over random choices", "No order is claimed among alternatives that met no level."),
    "C14": ("The four generated level sources as wired in main.go are iterated to exhaustion on generated parameters (dyadic ones landing exactly on the bounds) and compared with the documented series (exact length, thresholds at fraction r of the declared/observed range, strictly monotone, finite, out-of-range rejected); the API level re-uses the C12/C13 oracles on series-only requests so that swapping the increasing/decreasing wiring is caught.",
            "property-based testing (rapid): reference series oracle (component + API)", "Decreasing multiplied series generated with minValue >= 0.01 (length < 5000)."),
    "C15": ("Exactly one firing omission between two probes: count rule, omitted are distinct declared criteria, restriction of values/result to the kept criteria, decision byte-equal to the decision for the reduced request (kept order from the probe), weakest/strongest against an independently recomputed importance (incl. the Choquet decomposition), and statistical batches over 2000 seeds for the probabilistic orderings; superfluous method-parameter entries generated.",
            "property-based testing (rapid): metamorphic reduced-problem equivalence + reference importance + statistical batches", "Reduced-request equivalence for aspect elimination only with pairwise distinct weights (as the property states)."),
    "C16": ("Probed reversal step after 0..2 arbitrary biases: count rule, mirror formula over the declared/observed range of the state received for every known alternative, report == data handed on, everything else (values, criteria list, parameter fingerprint) unchanged, observed range preserved; double reversal with a value-independent selection restores the data.",
            "property-based testing (rapid): closed-formula oracle on probe snapshots + involution", "Double reversal judged only when both applications select the same criteria."),
    "C17": ("Probed fatigue step after 0..2 arbitrary biases: ratio formula, interval |v'-v| <= |f v| pushed through the (monotone) bounding function, f=0 identity, criteria/parameters untouched, report == values handed on == method input; run-level aggregate (replayable set of requests) that the seeded sign takes both values and u varies.",
            "property-based testing (rapid): interval/membership oracle + run-level aggregate", "The library's random stream is not replayed; u and s are judged by membership and by aggregates."),
    "C18": ("Probed concealment/mixing step (also repeated 2-3 times or after other biases): one appended gain criterion with unused id, all alternatives valued, existing data untouched, method evaluates the new state, new weight a fraction in [0,1) of an existing criterion's weight that also explains the reported range, concealed values in the scaled range through the bounding, mixing components/rescaling/formula; component batches for the three reference-criterion providers.",
            "property-based testing (rapid): closed-formula and membership oracles on probe snapshots", "'Existing' reference criterion = criterion of the original or the current state."),
    "C19": ("Probed anchoring step: reference point as coefficient-weighted extreme, scaling, gain/loss mapping split at d > 0, inline formula with bounding and exact new - old report, zero functions identity, not-considered untouched unless asked; newCriterion formula with importance-weighted mean, observed range report, existing values untouched.",
            "property-based testing (rapid): closed-formula oracle on probe snapshots", "Elements of reported lists are matched by id, never by position. Exponential overflow of the documented formula is outside the numeric domain (skipped, counted)."),
    "C09": ("Generated operation sequences (new request / an earlier request again) executed in one process with deep snapshots of every request value (incl. spare slice capacity) and the bytes of every returned result re-checked after every step; fully probed requests where every bias report and every state handed on is compared with the probe snapshot after the final method ran.",
            "property-based testing (rapid): model-based history invariants + report-vs-snapshot oracle", "The sequence is generated up front as one shrinkable value (equivalent to rapid's state-machine mode, but replayable as a pure function)."),
    "C10": ("Generated batches of 2..12 requests (duplicates, rejected ones, heuristics with generated level series) run by 1..4 goroutines each, 3 rounds, against the in-process handler of a -race build with GOMAXPROCS varied over shards; thorough also against a -race build of the real server process. Every concurrent response must equal the response of the same request decided alone; any race report or process death is a violation with the batch as replay.",
            "property-based testing (rapid) of generated batches under the Go race detector", "Schedules are sampled, not enumerated; the race detector reports conflicting unsynchronised accesses on executed paths independent of timing. A data-race-free but order-dependent logic race is seen only if a sampled interleaving exposes it."),
    "C20": ("Four-layer hostile generator (valid, constraint-level with 30 single-constraint operators, type-level subtree mutation, byte-level) against the in-process handler (watchdog, lowered max stack, current case kept on tmpfs so that a fatal crash becomes a replay) and the real server process (liveness after every request, known-good request re-checked); response-shape oracle, constraint mutants must be 400, unknown-name errors must list the registry, GET /api/preferenceFunctions schema per method with resolvable $refs; the echoed request of a 400 equals the request sent; hostile class of small bodies with 20-70 Choquet criteria under an 8 GiB address-space limit.",
            "property-based testing / fuzzing (rapid): structured hostile inputs + response-shape oracle + process liveness", "Bodies bounded (<= 64 KiB, small problems); resource exhaustion by inherently exponential VALID requests is out of scope (DESIGN.md §8)."),
}

NOT_YET = "check not built yet in this session (work in progress; to be claimed)"


def main():
    checks = []
    for pid in sorted(CLAIMED):
        text, tech, note = CLAIMED[pid]
        checks.append({
            "property_id": pid,
            "quick_cmd": "./check %s --tier quick" % pid,
            "thorough_cmd": "./check %s --tier thorough" % pid,
            "evidence_file": "/verif/evidence/%s.json" % pid,
            "replay_cmd_template": "./check %s --replay {path}" % pid,
            "engine": "rapid-harness",
            "level_claimed": {"category": "exploration", "text": text, "design_ref": "DESIGN.md §5 " + pid},
            "level_note": note + " " + TRUST,
            "technique": tech,
        })
    na = [{"property_id": "C%02d" % i, "reason": NOT_YET} for i in range(1, 21) if "C%02d" % i not in CLAIMED]
    m = {
        "version": 1,
        "setup_cmd": "./setup.sh",
        "hooks": {
            "guard": "verif",
            "enable": "no source hooks are needed: the harness is compiled as the external test package (main_test, plus one export_test.go of package main) of a fresh copy of /repo/httpClient/*.go and `replace lib => /repo/lib`; the build tag `verif` is reserved and unused",
            "baseline_off_cmd": "for m in $(cat /w/out/gomods.txt); do MF=$(cd /repo/$m && . /w/out/goenv.sh && gomodflag); (cd /repo/$m && go test $MF -json -vet=off -count=1 -timeout 25m ./...); done",
            "source_commits": [],
            "add_only": True,
        },
        "engines": [{
            "name": "rapid-harness", "path": "/verif/harness", "serves_properties": sorted(CLAIMED),
            "kind_free_text": "Go test binary (external test package of the service's own main.go, lib replaced by /repo/lib) driven by pgregory.net/rapid v1.3.0; driver /verif/check shards it over OS processes, merges statistics into evidence files and prints VIOLATION / KNOWN-FINDING lines",
        }],
        "checks": checks,
        "notes": "See DESIGN.md. Exit codes: 0 held, 1 violation (VIOLATION line + replay file), 2 inconclusive (build failure, time-out, vacuity health rule). known_findings.json lists genuine defects (open = recorded, fixed = repaired by a fix: commit in /repo).",
        "not_applicable": na,
    }
    json.dump(m, open(os.path.join(HERE, "MANIFEST.json"), "w"), indent=1)


if __name__ == "__main__":
    main()
