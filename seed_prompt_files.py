# generates the brief of a file-oriented seeded-change sub-agent: python3 seed_prompt_files.py <tag> <file> [<file>...]
import sys, json
tag = sys.argv[1]; files = sys.argv[2:]
props = [json.loads(l) for l in open('/verif/properties.jsonl')]
ptext = "\n\n".join("%s — %s\n%s\nQuantified over: %s" % (p['id'], p['title'], p['statement'], p['quantifier']['text']) for p in props)
print(f"""You are helping to evaluate a test suite's blind spots. You have a scratch git worktree of the Go project Azbesciak/RealDecisionMaker at /tmp/wt-{tag} (a library + HTTP service that simulates a biased human decision maker with MCDA methods: weightedSum, owa, choquetIntegral, electreIII, and the heuristics majority / aspect elimination / satisfaction, plus bias transforms: criteriaOmission, preferenceReversal, fatigue, criteriaConcealment, criteriaMixing, anchoring). The library lives in /tmp/wt-{tag}/lib (module github.com/Azbesciak/RealDecisionMaker/lib); the service wiring (registries of methods, listeners, biases; the gin handlers) is /tmp/wt-{tag}/httpClient/main.go. Read README.md and the code you need. Work ONLY inside /tmp/wt-{tag} and /tmp/seed-{tag}. Do not look at or touch /repo or /verif.

The sandbox is offline. For every go command use: export GOFLAGS=-mod=mod GOPROXY=off GOSUMDB=off GOTOOLCHAIN=local . The existing test suite is run with: cd /tmp/wt-{tag}/lib && go test ./...  (all tests pass on the unmodified worktree).

The project is supposed to satisfy the following twenty semantic properties:

---
{ptext}
---

YOUR TASK: make ONE realistic change to the project's non-test Go source, and it MUST be inside one of these files (they have not been examined so far):
  {chr(10).join('  lib/'+f if not f.startswith('lib/') else '  '+f for f in files)}
The change should be a plausible bug (the kind a refactoring, an optimisation, an off-by-one, an aliasing mistake, a wrong comparison, a misplaced seed, a shared variable, a dropped copy, a swapped argument, a wrong default could introduce) such that
  1. the project still compiles and the existing test suite (cd lib && go test ./...) still passes completely, and
  2. at least ONE of the twenty properties above is BROKEN by your change (choose the property your change violates most directly and name it), but
  3. the breakage needs something specific to manifest — a particular multi-step sequence of biases, an unusual but valid input shape (ties, negative values, cost criteria, a current choice inside the considered set, considered set smaller than the known set, a boundary parameter, a rarely used option value, repeated application, a specific method x bias combination), two cooperating code sites that each look fine alone, etc. Do NOT make a change that ordinary, typical use would expose at once. Subtle beats blatant. The change must be deterministic to demonstrate (no reliance on goroutine timing).
Do not edit or delete existing tests. Do not add build tags. Keep the change small (a few lines, one site if possible). Note: on the unmodified tree `weightedSum` already reports the plain sum of the signed values and ignores its weights (a known defect pinned by an existing test) — do not build on that.

DELIVERABLES (all under /tmp/seed-{tag}/):
  - patch.diff : output of `git -C /tmp/wt-{tag} diff` containing ONLY your source change (not the demonstration).
  - a demonstration: a Go test file (e.g. seed_demo_test.go placed in a suitable package directory under lib/; you may copy the registry wiring from httpClient/main.go into it if you need the full pipeline) that FAILS with your change applied and PASSES on the unmodified code. It must run with plain `go test` and no special environment variables; do NOT put it under httpClient/ and do not require a go.work or -modfile. Save a copy of it in /tmp/seed-{tag}/ together with the exact path where it must be placed and the exact command to run it. The demonstration must state in a comment which property and which clause of it is violated and must only assert what that property states.
  - meta.json : {{"property": "<the id, e.g. C07>", "summary": "...what was changed...", "needs_to_manifest": "...what specific input/sequence is required...", "files_changed": [...], "demo_path_in_repo": "<absolute path under /tmp/wt-{tag}/lib/...>", "demo_command": "cd /tmp/wt-{tag}/lib && go test ...", "verified": {{"suite_passes_with_change": true/false, "demo_fails_with_change": true/false, "demo_passes_without_change": true/false}}}}
Verify all three facts yourself by actually running the commands (use `git apply -R /tmp/seed-{tag}/patch.diff` and `git apply /tmp/seed-{tag}/patch.diff` to switch between unchanged and changed source; NEVER use git stash - it is shared with other worktrees) and record the truth in meta.json. Leave the worktree with your source change applied and the demo file present. Finish with a SHORT report (at most 12 lines): what you changed, which property it breaks, why the existing tests do not notice, and what is needed to trigger it.""")
