#!/bin/bash
# ./seed_eval.sh <seed dir> <name> [check ids...]
# Verifies a seeded breaking change independently and runs the checks against it.
#  1. fresh scratch worktree of /repo HEAD under /tmp: unedited suite with the patch, demo with and without the patch
#  2. patch applied to /repo's working tree: run the given checks (default: the property named in meta.json), undo
#  3. stores patch, demo, meta under /verif/seeded/<name>/
export GOFLAGS=-mod=mod GOPROXY=off GOSUMDB=off GOTOOLCHAIN=local
src=$1; name=$2; shift 2
meta=$src/meta.json
prop=$(python3 -c "import json;print(json.load(open('$meta'))['property'])")
demo_path=$(python3 -c "import json;print(json.load(open('$meta'))['demo_path_in_repo'])")
demo_cmd=$(python3 -c "import json;print(json.load(open('$meta'))['demo_command'])")
checks=${@:-$prop}
# the sub-agent's worktree was /tmp/wt-<tag>: the property id for property-oriented rounds, the directory tag (F01...) for file-oriented ones
tag=${WT_TAG:-$prop}
wt=/tmp/sev-$name
rm -rf $wt; git -C /repo worktree prune; git -C /repo worktree add -q --detach $wt HEAD || exit 2
demo_file=$(ls $src/*_test.go $src/*.go 2>/dev/null | head -1)
rel=${demo_path#/tmp/wt-$tag/}
mkdir -p $(dirname $wt/$rel); cp $demo_file $wt/$rel
cmd=${demo_cmd//\/tmp\/wt-$tag/$wt}
echo "== demo WITHOUT the change (must pass)"; (cd $wt && bash -c "$cmd" >/tmp/sev-$name.nopatch.log 2>&1); rc_without=$?; echo "rc=$rc_without"
git -C $wt apply $src/patch.diff || { echo "patch does not apply"; git -C /repo worktree remove --force $wt; exit 2; }
echo "== demo WITH the change (must fail)"; (cd $wt && bash -c "$cmd" >/tmp/sev-$name.patch.log 2>&1); rc_with=$?; echo "rc=$rc_with"
rm -f $wt/$rel
echo "== unedited suite WITH the change (must pass)"; (cd $wt/lib && go test -count=1 ./... 2>&1 | grep -v "^ok\|no test files" | head -5); (cd $wt/lib && go test -count=1 ./... >/dev/null 2>&1); rc_suite=$?; echo "rc=$rc_suite"
(cd $wt && go build ./... >/dev/null 2>&1) ; (cd $wt/httpClient && go vet ./... >/dev/null 2>&1)
git -C /repo worktree remove --force $wt
# run the checks against the change
cd /verif
# the checks run against a scratch clone of /repo's HEAD (VERIF_REPO), so /repo itself is never touched
# and background runs that build from /repo cannot pick the change up
EV=/tmp/repo-eval-$name
rm -rf $EV; git clone -q /repo $EV || exit 2
git -C $EV apply $src/patch.diff || exit 2
export VERIF_REPO=$EV
results=""
for id in $checks; do
  out=$(./check $id 2>&1); rc=$?
  nv=$(echo "$out" | grep -c '^VIOLATION')
  rule=$(echo "$out" | grep -m1 'rule=' | cut -c1-220)
  echo "check $id: exit=$rc violations=$nv $rule"
  results="$results $id:exit=$rc:violations=$nv"
done
unset VERIF_REPO
rm -rf $EV
mkdir -p seeded/$name
cp $src/patch.diff seeded/$name/patch.diff
cp $demo_file seeded/$name/
python3 - "$meta" "$name" "$rc_without" "$rc_with" "$rc_suite" "$results" <<'PY'
import json,sys
m=json.load(open(sys.argv[1])); name=sys.argv[2]
m['independently_verified']={'demo_passes_without_change': sys.argv[3]=='0', 'demo_fails_with_change': sys.argv[4]!='0', 'unedited_suite_passes_with_change': sys.argv[5]=='0'}
m['checks_run_against_it']=sys.argv[6].split()
m['what_was_run']="seed_eval.sh: fresh worktree of /repo HEAD under /tmp (demo without/with the patch, unedited lib test suite with the patch), then the patch applied to a scratch clone of /repo HEAD (VERIF_REPO=<clone>), ./check <ids> (quick tier, VERIF_SEED=1), clone removed"
json.dump(m,open('/verif/seeded/%s/meta.json'%name,'w'),indent=1)
print(json.dumps(m['independently_verified']), m['checks_run_against_it'])
PY
