import sys
pid=sys.argv[1]
prop=open('/tmp/seed-%s/PROPERTY.txt'%pid).read()
print(f"""You are helping to evaluate a test suite's blind spots. You have a scratch git worktree of the Go project Azbesciak/RealDecisionMaker at /tmp/wt-{pid} (a library + HTTP service that simulates a biased human decision maker with MCDA methods: weightedSum, owa, choquetIntegral, electreIII, and the heuristics majority / aspect elimination / satisfaction, plus bias transforms: criteriaOmission, preferenceReversal, fatigue, criteriaConcealment, criteriaMixing, anchoring). The library lives in /tmp/wt-{pid}/lib (module github.com/Azbesciak/RealDecisionMaker/lib); the service wiring (registries of methods, listeners, biases; the gin handlers) is /tmp/wt-{pid}/httpClient/main.go. Read README.md and the code you need. Work ONLY inside /tmp/wt-{pid} and /tmp/seed-{pid}. Do not look at or touch /repo or /verif.

The sandbox is offline. For every go command use: export GOFLAGS=-mod=mod GOPROXY=off GOSUMDB=off GOTOOLCHAIN=local . The existing test suite is run with: cd /tmp/wt-{pid}/lib && go test ./...  (all tests pass on the unmodified worktree).

Here is a semantic property the project is supposed to satisfy:

---
{prop}---

YOUR TASK: make ONE realistic change to the project's non-test Go source (a plausible bug: the kind a refactoring, an optimisation, an off-by-one, an aliasing mistake, a wrong comparison, a misplaced seed, a shared variable, a dropped copy, a swapped argument could introduce) such that
  1. the project still compiles and the existing test suite (cd lib && go test ./...) still passes completely, and
  2. the property above is BROKEN by your change, but
  3. the breakage needs something specific to manifest — a particular multi-step sequence of biases, an unusual but valid input shape (ties, a current choice inside the considered set, all alternatives considered, a boundary parameter, a particular ordering/seed option, repeated application, a specific method x bias combination), two cooperating code sites that each look fine alone, a particular interleaving of concurrent requests, etc. Do NOT make a change that ordinary, typical use would expose at once (e.g. do not break every weighted-sum result). Subtle beats blatant. Prefer touching the code paths the property is about.
Do not edit or delete existing tests. Do not add build tags. Keep the change small (a few lines, at most two sites).

DELIVERABLES (all under /tmp/seed-{pid}/):
  - patch.diff : output of `git -C /tmp/wt-{pid} diff` containing ONLY your source change (not the demonstration).
  - a demonstration: a Go test file (e.g. seed_demo_test.go placed in a suitable package directory under lib/, you may copy the registry wiring from httpClient/main.go into it if you need the full pipeline; or a tiny standalone program) that FAILS with your change applied and PASSES on the unmodified code. Save a copy of it in /tmp/seed-{pid}/ together with the exact path where it must be placed and the exact command to run it. The demonstration must state in a comment which clause of the property is violated and must only assert what the property states.
  - meta.json : {{"property": "{pid}", "summary": "...what was changed...", "needs_to_manifest": "...what specific input/sequence/interleaving is required...", "files_changed": [...], "demo_path_in_repo": "...", "demo_command": "...", "verified": {{"suite_passes_with_change": true/false, "demo_fails_with_change": true/false, "demo_passes_without_change": true/false}}}}
Verify all three facts yourself by actually running the commands (use `git diff > p.diff; git apply -R p.diff` and `git apply p.diff` to switch between changed and unchanged source; NEVER use git stash — the stash is shared with other worktrees) and record the truth in meta.json. Leave the worktree with your source change applied and the demo file present. Finish with a short report: what you changed, why the existing tests do not notice, and what is needed to trigger it.""")
