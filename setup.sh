#!/bin/sh
# Run once after a fresh restore (offline): warm the Go build cache for the
# harness (plain and -race builds) so that the first check does not pay for
# compiling the standard library. Builds from files on disk only.
export GOFLAGS=-mod=mod GOPROXY=off GOSUMDB=off GOTOOLCHAIN=local
cd "$(dirname "$0")" || exit 1
B=build/setup
rm -rf "$B" && mkdir -p "$B" evidence replays || exit 1
cp /repo/httpClient/*.go "$B"/ && cp harness/*.go harness/go.mod harness/go.sum "$B"/ || exit 1
rm -f "$B"/*_notexist
( cd "$B" && go test -c -vet=off -o h.test . && go test -c -vet=off -race -o hr.test . && go build -o server.bin . ) || exit 1
rm -rf "$B"
echo setup ok
